#!/usr/bin/env python3
"""vp.py -- orchestrator.

  vp.py check <Cxx> [--tier quick|thorough] [--keep] [--only REGEX] [--verbose]
  vp.py replay <replay-file>
  vp.py list <Cxx> [--tier T]

exit 0: every registered obligation discharged on code regenerated from /repo's working tree
exit 1: VIOLATION property=<id> replay=<path>
exit 2: undecided / infrastructure (never a verdict)
"""
import argparse
import importlib
import json
import os
import re
import shutil
import sys
import time
from concurrent.futures import ThreadPoolExecutor

HERE = os.path.dirname(os.path.abspath(__file__))
sys.path.insert(0, HERE)

from vplib import run as R          # noqa: E402
from vplib import replay as RP      # noqa: E402
from vplib import cxxtypes as CT    # noqa: E402

PARTIAL = [False]
VALUE_CLASSES = ('postcondition', 'signal', 'callee-precondition')
VIOLATION_CLASSES = VALUE_CLASSES + ('frame', 'pointer', 'bounds', 'unwinding', 'loop')


def load_findings():
    p = os.path.join(HERE, 'known_findings.json')
    if not os.path.exists(p):
        return []
    return json.load(open(p)).get('findings', [])


def signed_val(pattern, width, t):
    """bit pattern -> mathematical value for short type t"""
    if t in ('f32', 'f64'):
        return pattern
    tt = CT.ty(t)
    return CT.wrap(pattern, tt)


def cex_args(job, fi, cex, tr):
    """flatten the trace's vp_in* values into shim arguments (python ints / floats)"""
    if not cex:
        return None
    idx, skip_this = R.input_params(job, fi)
    leaves = []
    names = job.inputs if job.inputs else ['vp_in%d' % k for k in idx if not (skip_this and k == 0)]
    for nm in names:
        v = cex.get(nm)
        if v is None:
            return None
        tmp = []
        R.flatten(v, tmp)
        leaves.extend(tmp)
    if job.cex_filter:
        leaves = job.cex_filter(leaves)
    if job.shim_types is None or len(leaves) != len(job.shim_types):
        return None
    out = []
    for leaf, t in zip(leaves, job.shim_types):
        if leaf[0] == 'i':
            if t in ('f32', 'f64'):
                return None
            out.append(signed_val(leaf[1], leaf[2], t))
        elif leaf[0] in ('f32', 'f64'):
            out.append(leaf[1])
        else:
            return None
    return out


class ReplayBuilds:
    """one dispatcher executable per (kernel, build flavour), built lazily, shared by all replays of a run"""

    def __init__(self, plan, wd):
        import threading
        self.lock = threading.Lock()
        self.locks = {}
        self.exes = {}
        self.wd = wd
        self.shims = {}
        for j in plan['jobs']:
            if isinstance(j, tuple):
                continue
            if j.shim and j.shim_types is not None:
                self.shims.setdefault(j.kernel, []).append((j.shim, j.shim_types, getattr(j, 'shim_ret', 'auto')))

    def get(self, kern, flavour, flags, comp):
        key = (kern.name, flavour)
        with self.lock:
            lk = self.locks.setdefault(key, __import__('threading').Lock())
        with lk:
            if key not in self.exes:
                src = RP.driver_source(kern.src, self.shims.get(kern.name, []))
                base_flags = [f for f in kern.flags if f != '-U__clang__']
                self.exes[key] = RP.build(src, base_flags + flags, comp, os.path.join(self.wd, 'replay_build'),
                                          '%s_%s' % (kern.name, flavour))
            return self.exes[key]


REPLAY = None


def native_replay(job, kern, args, wd, sanitize=False):
    """returns list of observations (one per build flavour)"""
    if not job.shim:
        return []
    obs = []
    gcc_paths = '-U__clang__' in kern.flags
    comp = 'g++' if gcc_paths else 'clang++-14'
    flavours = [('debug', ['-O0']), ('release', ['-O2', '-DNDEBUG'])]
    if sanitize:
        flavours.append(('ubsan', ['-O0', '-fsanitize=undefined,address', '-fno-sanitize-recover=all']))
    argv = [job.shim] + [RP.fmt_arg(a, t) for a, t in zip(args, job.shim_types)]
    for fl, ff in flavours:
        exe, cmd, err = REPLAY.get(kern, fl, ff, comp)
        if exe is None:
            obs.append({'build': comp + ' ' + fl, 'kind': 'build-error', 'detail': err[-800:], 'cmd': cmd})
            continue
        o = RP.observe(exe, argv)
        o['build'] = comp + ' ' + fl
        o['cmd'] = cmd
        o['argv'] = argv
        obs.append(o)
    return obs


def write_replay(prop, job, res, fo, args, expected, obs, verdict, note=''):
    d = os.environ.get('VP_REPLAY_DIR') or os.path.join(HERE, 'replay')
    os.makedirs(d, exist_ok=True)
    path = os.path.join(d, '%s-%s.json' % (prop, re.sub(r'[^A-Za-z0-9_.-]', '_', job.name)[:120]))
    data = {
        'property': prop,
        'job': job.name,
        'failed_obligation': {'name': fo.get('name'), 'description': fo.get('desc'), 'class': fo.get('cls')},
        'all_failed_obligations': [{'name': f.get('name'), 'description': f.get('desc')} for f in res.failed][:40],
        'function_under_contract': res.target_dem,
        'c_name': res.target_c,
        'contract': res.contract.clauses() if res.contract else None,
        'kernel': job.kernel,
        'shim': job.shim,
        'shim_types': job.shim_types,
        'inputs': [str(a) for a in args] if args is not None else None,
        'raw_counterexample': fo.get('cex'),
        'expected_by_oracle': list(expected) if expected else None,
        'native_observations': obs,
        'verdict': verdict,
        'note': note,
        'cbmc_trace_tail': fo.get('trace_tail'),
        'commands': res.cmds,
        'how_to_replay': 'python3 /verif/vp.py replay ' + path,
    }
    with open(path, 'w') as f:
        json.dump(data, f, indent=1, default=str)
    return path


def decide_failure(prop, job, kern, res, wd):
    """returns (kind, path, text); kind in violation | undecided"""
    # prefer a failed obligation with counterexample inputs
    fo = None
    for f in res.failed:
        if f.get('cex'):
            fo = f
            break
    if fo is None:
        fo = res.failed[0]
    if not (fo['cls'].startswith('UB.') or fo['cls'] in VIOLATION_CLASSES):
        path = write_replay(prop, job, res, fo, None, None, [], 'undecided',
                            'failed obligation of a class the machinery does not attribute to the code under proof')
        return 'undecided', path, 'unrecognised obligation class %s: %s' % (fo['cls'], fo.get('desc', '')[:120])
    tr = kern.tr
    fi = tr.funcs[kern.resolve(job)]
    args = cex_args(job, fi, fo.get('cex'), tr)
    expected = None
    obs = []
    if args is not None and job.shim:
        if job.oracle:
            try:
                expected = job.oracle(*args, _tr=tr) if getattr(job.oracle, 'wants_tr', False) else job.oracle(*args)
            except Exception as e:       # oracle must not kill the verdict
                expected = None
                fo['oracle_error'] = repr(e)
        obs = native_replay(job, kern, args, wd, sanitize=not fo['cls'] in VALUE_CLASSES)
    if args is None or not job.shim:
        path = write_replay(prop, job, res, fo, args, expected, obs, 'violation',
                            'no usable entry values in the trace or no native shim for this function')
        return 'violation', path, 'no-failing-input-found'
    runs = [o for o in obs if o['kind'] != 'build-error']
    if not runs:
        path = write_replay(prop, job, res, fo, args, expected, obs, 'violation', 'native replay build failed')
        return 'violation', path, 'no-failing-input-found'
    if fo['cls'] in VALUE_CLASSES and expected is not None:
        bad = [o for o in runs if not RP.matches(o, expected)]
        if not bad:
            path = write_replay(prop, job, res, fo, args, expected, obs, 'not-reproduced',
                                'value obligation failed in the proof but the real code agrees with the oracle on this input: '
                                'extraction/spec/oracle problem, reported as undecided (exit 2), never as a violation')
            return 'undecided', path, 'counterexample does not reproduce natively'
        path = write_replay(prop, job, res, fo, args, expected, obs, 'violation', 'reproduced on the real code')
        return 'violation', path, ''
    # UB / frame / pointer / unwinding class, or no oracle: the failing input exists
    path = write_replay(prop, job, res, fo, args, expected, obs, 'violation',
                        'failing input found; native symptom (if any) listed under native_observations')
    return 'violation', path, ''


def do_check(prop, tier, keep=False, only=None, verbose=False):
    t0 = time.time()
    seed = int(os.environ.get('VERIF_SEED', '0') or 0)
    spec = importlib.import_module('specs.' + prop)
    plan = spec.plan(tier)
    kernels = {k.name: k for k in plan['kernels']}
    jobs = plan['jobs']
    if only:
        PARTIAL[0] = True
        rx = re.compile(only)
        jobs = [j for j in jobs if isinstance(j, tuple) or rx.search(j.name)]
    wd = os.path.join(HERE, '.work', '%s.%d' % (prop, os.getpid()))
    if os.path.exists(wd):
        shutil.rmtree(wd)
    # stale work dirs of earlier (failed / killed) runs of this property whose process is gone
    try:
        for d in os.listdir(os.path.join(HERE, '.work')):
            m = re.match(r'^%s\.(\d+)$' % re.escape(prop), d)
            if m and not os.path.exists('/proc/' + m.group(1)) and not os.environ.get('VP_KEEP'):
                shutil.rmtree(os.path.join(HERE, '.work', d), ignore_errors=True)
    except OSError:
        pass
    os.makedirs(wd)
    exit_code = 0
    lines = []
    global REPLAY
    REPLAY = ReplayBuilds(plan, wd)
    try:
        # 1. kernels
        used = sorted({(j[1] if isinstance(j, tuple) else j.kernel) for j in jobs})
        with ThreadPoolExecutor(max_workers=8) as ex:
            futs = {n: ex.submit(kernels[n].build, wd, plan.get('div_helpers', False)) for n in used}
            for n, f in futs.items():
                try:
                    f.result()
                except R.Infra as e:
                    print('INFRA: %s' % e)
                    return finish(prop, tier, seed, plan, [], {}, t0, 2, ['kernel build failed: %s' % str(e)[:300]], wd, keep)
        # 1b. expand leaf families: one job per instantiation of the pattern present in the kernel
        expanded = []
        for j in jobs:
            if isinstance(j, tuple) and j[0] == 'LEAVES':
                _, kn, pat, cfn, label = j[:5]
                kw = j[5] if len(j) > 5 else {}
                kern = kernels[kn]
                for n in kern.find_all(pat):
                    fi = kern.tr.funcs[n]
                    if not fi['defined']:
                        continue
                    m = re.search(pat, fi['demangled'])
                    c = cfn(m, fi, kern.tr)
                    if c is None:
                        continue
                    short = re.sub(r'[^A-Za-z0-9_]+', '_', '_'.join(str(v) for v in m.groupdict().values()))
                    jn = '%s.%s.%s' % (prop, label, short)
                    if only and not re.search(only, jn):
                        continue
                    expanded.append(R.Job(jn, kn, '^' + re.escape(fi['demangled']) + '$', c, prop=prop, **kw))
            else:
                expanded.append(j)
        jobs = expanded
        if tier == 'quick' and not os.environ.get('VP_ALL_CANARIES'):
            # vacuity canary once per contract family (job name without its instantiation suffix); all of them in the thorough tier
            fam = set()
            for j in jobs:
                f = re.sub(r'(?<![A-Za-z0-9])[iuf]\d+l?(?![A-Za-z0-9])|_[iuf]\d+l?(?=_|$|\.)|(?<=_)m?\d+(?=_|$)', '', j.name)      # job name without its type / exponent tokens
                if f in fam and j.canary in ('ensures', 'signal'):
                    j.canary = 'sampled-out'
                fam.add(f)
        # 2. known findings
        findings = [f for f in load_findings() if f['property'] == prop and f.get('status', 'open') == 'open']
        # 3. run
        done = [0]

        def prog(r):
            done[0] += 1
            if verbose or r.status not in ('pass', 'skipped'):
                print('  [%d/%d] %-8s %6.1fs %s %s' % (done[0], len(jobs), r.status, r.wall_s, r.job.name, (r.detail or '')[:300].replace('\n', ' ')), flush=True)
        results = R.run_jobs(jobs, kernels, wd, progress=prog)
        skipped = [r for r in results if r.status == 'skipped']
        results = [r for r in results if r.status != 'skipped']
        # 4. decide
        known_hits = {}
        violations = []
        undecided = []

        def decide(r):
            j = r.job
            if r.status == 'pass':
                return None
            if r.status == 'fail':
                fs = [f for f in findings if re.fullmatch(f['job'], j.name)]
                if fs:
                    j2 = copy_job(j)
                    region = ' || '.join('(%s)' % f['region'] for f in fs)
                    j2.harness_pre = (j.harness_pre + '\n  __CPROVER_assume(!(%s));' % region)
                    j2.canary = 'excluded-region-run'      # the unrestricted run already showed the function is reachable
                    r2 = R.run_job(j2, kernels[j.kernel], os.path.join(wd, 'excl'))
                    if r2.status == 'pass':
                        r.known = fs
                        r.excl = r2
                        return ('known', fs)
                    if r2.status == 'fail':
                        kind, path, text = decide_failure(prop, j2, kernels[j.kernel], r2, wd)
                        return (kind, path, text + ' (outside the known-finding region)')
                    return ('undecided', None, 'run with known-finding region excluded: %s %s' % (r2.status, r2.detail))
                d = decide_failure(prop, j, kernels[j.kernel], r, wd)
                if d[0] == 'undecided' and 'does not reproduce natively' in d[2] and (j.abstract_mul or j.abstract_div or j.abstract_fp):
                    # the counterexample lives in the abstraction (an interpretation of the uninterpreted product/quotient that is not
                    # the machine one).  Retry once with the machine operations: a real defect then yields a counterexample that replays.
                    j3 = copy_job(j)
                    j3.abstract_mul = j3.abstract_div = j3.abstract_fp = False
                    j3.ignore_classes = ()
                    j3.canary = 'concrete-retry'
                    j3.solvers = ['cadical', 'kissat']
                    j3.timeout = min(max(j.timeout, 300), 600)
                    r3 = R.run_job(j3, kernels[j.kernel], os.path.join(wd, 'concrete'))
                    if r3.status == 'fail':
                        kind, path, text = decide_failure(prop, j3, kernels[j.kernel], r3, wd)
                        return (kind, path, (text + ' (found after retrying without abstraction)').strip())
                    if r3.status == 'pass':
                        r.excl = r3         # proved with the machine operations: the abstract counterexample was spurious
                        r.status = 'pass'
                        return None
                    return ('undecided', d[1], d[2] + '; retry without abstraction: %s %s' % (r3.status, r3.detail))
                return d
            return ('undecided', None, '%s: %s' % (r.status, r.detail))
        with ThreadPoolExecutor(max_workers=12) as ex:
            decs = list(ex.map(decide, results))
        for r, d in zip(results, decs):
            if d is None:
                continue
            if d[0] == 'known':
                for f in d[1]:
                    known_hits.setdefault(f['id'], (f, []))[1].append(r.job.name)
            elif d[0] == 'violation':
                violations.append((r, d[1], d[2]))
            else:
                undecided.append((r, '%s (replay file %s)' % (d[2], d[1])))
        for fid, (f, names) in known_hits.items():
            lines.append('KNOWN-FINDING: property=%s %s [%s; %d job(s)]' % (prop, f['what'], fid, len(names)))
        for r, path, text in violations:
            lines.append('VIOLATION property=%s replay=%s%s' % (prop, path, (' ' + text) if text else ''))
        for r, why in undecided:
            lines.append('UNDECIDED job=%s %s' % (r.job.name, why[:500].replace('\n', ' ')))
        if violations:
            exit_code = 1
        elif undecided:
            exit_code = 2
        for l in lines:
            print(l)
        return finish(prop, tier, seed, plan, results, known_hits, t0, exit_code,
                      [l for l in lines if l.startswith('UNDECIDED')], wd, keep, violations=len(violations))
    finally:
        if not keep and exit_code == 0:
            shutil.rmtree(wd, ignore_errors=True)


def copy_job(j):
    import copy
    return copy.copy(j)


def finish(prop, tier, seed, plan, results, known_hits, t0, exit_code, notes, wd, keep, violations=0):
    proof = [r for r in results if r.job.klass == 'proof']
    bounded = [r for r in results if r.job.klass != 'proof']

    def eff(r):
        return getattr(r, 'excl', None) or r
    obligations = sum(len(eff(r).obligations) for r in proof)
    discharged = sum(1 for r in proof for o in eff(r).obligations if o['status'] == 'SUCCESS')
    classes = {}
    by_backend = {}
    for r in results:
        e = eff(r)
        for o in e.obligations:
            classes[o['cls']] = classes.get(o['cls'], 0) + 1
        if e.solver:
            b = by_backend.setdefault(e.solver, {'jobs': 0, 'obligations': 0, 'solver_s': 0.0})
            b['jobs'] += 1
            b['obligations'] += len(e.obligations)
            b['solver_s'] = round(b['solver_s'] + e.solver_s, 2)
    fuc = []
    for r in results:
        if not r.target_dem:
            continue
        e = eff(r)
        fuc.append({
            'job': r.job.name, 'function': r.target_dem[:400], 'layer': r.job.layer, 'kernel': r.job.kernel,
            'status': r.status if not getattr(r, 'known', None) else 'pass-outside-known-finding-region',
            'level': r.job.klass, 'bound': r.job.bound or None,
            'contract': r.contract.clauses() if r.contract else None,
            'callees_replaced_by_contract': [x[:200] for x in r.replaced],
            'callees_inlined': len(r.inlined),
            'obligations': e.counts(), 'solver': e.solver, 'solver_s': round(e.solver_s, 2),
            'unwind': r.job.unwind, 'unwindset': [list(u) for u in getattr(r.job, 'unwindset', [])] or None,
            'enforcement': 'harness assume(requires) / assert(ensures), no goto-instrument step: frame NOT checked' if getattr(r.job, 'plain', False) else 'goto-instrument --dfcc (requires assumed, ensures + assigns frame asserted)',
            'canary': e.canary, 'note': r.job.note or None,
            'abstracted': [n for n, f in (('machine multiplication as one uninterpreted function per width', r.job.abstract_mul), ('machine division as uninterpreted functions', r.job.abstract_div), ('floating-point division/multiplication as uninterpreted functions', r.job.abstract_fp)) if f] or None,
            'obligation_classes_left_to_companion_job': list(r.job.ignore_classes) or None,
        })
    samples = []
    for r in results[:3]:
        for o in eff(r).obligations[:3]:
            samples.append({'job': r.job.name, 'obligation': o['name'], 'description': o['desc'], 'status': o['status']})
    for r in results:
        for o in eff(r).obligations:
            if o['cls'] == 'postcondition' and len(samples) < 12:
                samples.append({'job': r.job.name, 'obligation': o['name'], 'description': o['desc'], 'status': o['status']})
                break
    checker_cmd = ''
    for r in results:
        if r.cmds:
            checker_cmd = ' && '.join(r.cmds[:3])
            break
    kinfo = []
    for k in plan['kernels']:
        if k.tr is not None:
            kinfo.append({'kernel': k.name, 'flags': k.flags, 'clang_cmd': getattr(k, 'clang_cmd', ''),
                          'ir_functions': len(k.tr.funcs),
                          'refused_functions': sorted({'%s: %s' % (i['demangled'][:120], i['reason']) for i in k.tr.funcs.values()
                                                       if not i['ok'] and i['defined']})[:40],
                          'build_s': round(k.build_s, 1)})
    meta = plan.get('meta', {})
    # replaced callees that no job of this run enforces: their contracts are ASSUMED in this tier (listed, never hidden)
    enforced = {(r.job.kernel, r.target_dem) for r in results if r.target_dem}
    assumed_here = sorted({'%s [%s]' % (d[:220], r.job.kernel) for r in results for d in (r.replaced or []) if (r.job.kernel, d) not in enforced})
    ev = {
        'property_id': prop,
        'tier': tier,
        'seed': seed,
        'level': 'proof',
        'coverage': {
            'obligations': obligations,
            'discharged': discharged,
            'checker_cmd': checker_cmd or 'none run',
            'trusted_base': meta.get('trusted_base', []) + [
                'clang 14 front end (C++ -> LLVM IR at -O0 is taken as the semantics of the source)',
                'vplib/ll2c.py IR->C printer (rule table, aborts outside it)',
                'CBMC 6.11.0: goto-cc, goto-instrument --dfcc, symex, bit-vector flattening, SAT back ends (minisat/cadical/kissat)',
                'exact arithmetic represented in finite __CPROVER_bitvector widths chosen per contract so that no wrap is possible (checked by --signed-overflow-check on the spec expressions)',
            ],
            'jobs': len(results),
            'jobs_passed': sum(1 for r in results if r.status == 'pass' or getattr(r, 'known', None)),
            'functions_under_contract': fuc,
            'obligation_classes': classes,
            'by_backend': by_backend,
            'bounded_checks': [{'job': r.job.name, 'bound': r.job.bound, 'status': r.status,
                                'obligations': len(r.obligations)} for r in bounded],
            'kernels': kinfo,
            'instantiations': meta.get('instantiations'),
            'not_applicable_parts': meta.get('not_applicable_parts', []),
            'assumed_contracts': meta.get('assumed_contracts', []) + ['replaced but not enforced in this tier: ' + a for a in assumed_here],
            'known_findings': [{'id': fid, 'what': f['what'], 'jobs': names} for fid, (f, names) in known_hits.items()],
            'samples': samples or [{'note': 'no obligations were generated'}],
            'explanation': meta.get('explanation', ''),
            'exit_code': exit_code,
            'notes': notes,
        },
        'assumptions': meta.get('assumptions', []) + ([
            'jobs marked abstracted prove their clauses for every interpretation of the abstracted operation (sound over-approximation); what needs the machine semantics (no-overflow, non-zero, ranges) is proved by unabstracted companion jobs, by operand-width arithmetic in the printer, or by compile-time interval facts'] if any(r.job.abstract_mul or r.job.abstract_div or r.job.abstract_fp for r in results) else []) + [
            'results are per listed instantiation (the programs quantifier is sampled by the instantiation plan)',
            'machine division sdiv/udiv/srem/urem is modelled by CBMC bit-precisely unless a job states otherwise',
        ],
        'wall_s': round(time.time() - t0, 2),
        'violations': violations,
    }
    bounded_ok = [r for r in bounded if r.status == 'pass']
    if obligations == 0 and bounded_ok:
        # only bounded stand-ins ran: reported as bounded model checking, never as proof
        ev['level'] = 'model_checking'
        allo = [(r.job.name, o['name'], o['desc']) for r in bounded_ok for o in r.obligations]
        ev['coverage']['evaluations'] = len(allo)
        ev['coverage']['distinct_nontrivial'] = len({(j, n) for j, n, d in allo if 'discharged by operand widths' not in d})
        ev['coverage']['rule'] = ('one evaluation = one CBMC assertion (UB obligation, harness-enforced postcondition, unwinding assertion) checked for ALL inputs of the stated bounded class; '
                                  'non-trivial = not discharged statically by the printer; bounded checks only -- obligations/discharged stay 0 because nothing here is a proof')
        ev['coverage']['exhaustive'] = False
    elif obligations == 0:
        # keep the file schema-valid but unmistakably empty
        ev['level'] = 'other'
        ev['coverage']['explanation'] = 'no obligations discharged in this run: ' + '; '.join(notes)[:500]
    evdir = os.environ.get('VP_EVIDENCE_DIR') or os.path.join(HERE, 'evidence')
    if PARTIAL[0] and not os.environ.get('VP_EVIDENCE_DIR'):
        evdir = os.path.join(HERE, '.work', 'evidence_partial')      # --only runs never overwrite the registered evidence
    os.makedirs(evdir, exist_ok=True)
    with open(os.path.join(evdir, prop + '.json'), 'w') as f:
        json.dump(ev, f, indent=1, default=str)
    npass = sum(1 for r in results if r.status == 'pass')
    print('%s tier=%s jobs=%d passed=%d obligations=%d discharged=%d wall=%.1fs exit=%d'
          % (prop, tier, len(results), npass, obligations, discharged, time.time() - t0, exit_code))
    if exit_code != 0 and not keep:
        print('work dir kept for diagnosis: %s' % wd)
    return exit_code


def do_replay(path):
    d = json.load(open(path))
    print('property   : %s' % d['property'])
    print('obligation : %s -- %s' % (d['failed_obligation']['name'], d['failed_obligation']['description']))
    print('function   : %s' % d['function_under_contract'])
    print('inputs     : %s' % d['inputs'])
    print('expected   : %s' % d['expected_by_oracle'])
    if not d.get('shim') or d.get('inputs') is None:
        print('no native replay available for this obligation (no-failing-input-found); verifier output:')
        for l in d.get('cbmc_trace_tail') or []:
            print('   ' + l)
        return 1
    spec = importlib.import_module('specs.' + d['property'])
    tier = 'thorough'
    plan = spec.plan(tier)
    job = None
    for j in plan['jobs']:
        if not isinstance(j, tuple) and j.name == d['job']:
            job = j
    if job is None:
        print('job %s no longer in the plan' % d['job'])
        return 2
    kern = {k.name: k for k in plan['kernels']}[job.kernel]
    wd = os.path.join(HERE, '.work', 'replay.%d' % os.getpid())
    os.makedirs(wd, exist_ok=True)
    try:
        args = []
        for a, t in zip(d['inputs'], job.shim_types):
            args.append(float(a) if t in ('f32', 'f64') else int(a))
        global REPLAY
        REPLAY = ReplayBuilds(plan, wd)
        obs = native_replay(job, kern, args, wd, sanitize=True)
        exp = tuple(d['expected_by_oracle']) if d.get('expected_by_oracle') else None
        bad = 0
        for o in obs:
            ok = RP.matches(o, exp) if exp else o['kind'] in ('value', 'trap', 'throw')
            print('  %-22s -> %s %s   %s' % (o['build'], o['kind'], o.get('detail', '')[:200].replace('\n', ' | '), 'agrees' if ok else 'DISAGREES'))
            bad += 0 if ok else 1
        print('reproduced' if bad else 'not reproduced natively')
        return 1 if bad else 0
    finally:
        shutil.rmtree(wd, ignore_errors=True)


def do_selfcheck():
    """tool presence + the spec library's C++ conversion rules checked against clang (static_asserts)"""
    import subprocess
    import tempfile
    ok = True
    for tool, arg in (('clang++-14', '--version'), ('cbmc', '--version'), ('goto-cc', '--version'),
                      ('goto-instrument', '--version'), ('kissat', '--version'), ('llvm-cxxfilt-14', '--version'), ('g++', '--version')):
        try:
            out = subprocess.run([tool, arg], capture_output=True, text=True).stdout.strip().split('\n')[0]
            print('%-18s %s' % (tool, out))
        except OSError as e:
            print('%-18s MISSING (%s)' % (tool, e))
            ok = False
    names = ['i8', 'u8', 'i16', 'u16', 'i32', 'u32', 'i64', 'u64', 'i128', 'u128']
    lines = ['#include <cstdint>', '#include <type_traits>', 'using vp_u128 = unsigned __int128; using vp_s128 = __int128;']
    cn = lambda x: {'i128': 'vp_s128', 'u128': 'vp_u128'}.get(x, CT.CXX_NAME[x])
    for a in names:
        for b in names:
            A, B = CT.ty(a), CT.ty(b)
            lines.append('static_assert(std::is_same_v<decltype(%s{} + %s{}), %s>, "%s+%s");'
                         % (cn(a), cn(b), CT.common(A, B).cname, a, b))
        lines.append('static_assert(std::is_same_v<decltype(-%s{}), %s>, "neg %s");' % (cn(a), CT.promote(CT.ty(a)).cname, a))
    with tempfile.TemporaryDirectory(dir=HERE) as d:
        src = os.path.join(d, 'conv.cpp')
        open(src, 'w').write('\n'.join(lines) + '\nint main(){}\n')
        p = subprocess.run(['clang++-14', '-std=gnu++20', '-fsyntax-only', src], capture_output=True, text=True)
        if p.returncode != 0:
            print('usual-arithmetic-conversion table disagrees with clang:\n' + p.stderr[:2000])
            ok = False
        else:
            print('usual arithmetic conversions: %d static_asserts agree with clang' % (len(lines) - 2))
    return 0 if ok else 2


def main():
    ap = argparse.ArgumentParser()
    sub = ap.add_subparsers(dest='cmd')
    c = sub.add_parser('check')
    c.add_argument('prop')
    c.add_argument('--tier', default=os.environ.get('VERIF_TIER', 'quick'))
    c.add_argument('--keep', action='store_true')
    c.add_argument('--only')
    c.add_argument('--verbose', action='store_true')
    r = sub.add_parser('replay')
    r.add_argument('path')
    l = sub.add_parser('list')
    l.add_argument('prop')
    l.add_argument('--tier', default='quick')
    sub.add_parser('selfcheck')
    a = ap.parse_args()
    R.install_cleanup()
    if a.cmd == 'selfcheck':
        sys.exit(do_selfcheck())
    if a.cmd == 'check':
        tier = a.tier if a.tier in ('quick', 'thorough') else 'quick'
        if a.keep:
            os.environ['VP_KEEP'] = '1'
        try:
            rc = do_check(a.prop, tier, a.keep, a.only, a.verbose)
        except SystemExit:
            raise
        except BaseException as e:      # infrastructure failure (disk full, interrupted, bug): never a verdict
            import traceback
            traceback.print_exc()
            print('INFRA: check aborted by %s: %s' % (type(e).__name__, str(e)[:300]))
            R.kill_live()
            sys.exit(2)
        sys.exit(rc)
    if a.cmd == 'replay':
        sys.exit(do_replay(a.path))
    if a.cmd == 'list':
        spec = importlib.import_module('specs.' + a.prop)
        plan = spec.plan(a.tier)
        for j in plan['jobs']:
            print(j if isinstance(j, tuple) else (j.name, j.kernel, j.solvers, j.timeout))
        sys.exit(0)
    ap.print_help()
    sys.exit(2)


if __name__ == '__main__':
    main()

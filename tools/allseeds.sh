#!/bin/bash
# re-validates every seeded change against the checks: applies seeded/<id>/patch.diff to a scratch copy of /repo/include (never to /repo),
# runs the check named in meta.json ("check": property, tier, only-regex) and expects exit 1 with a VIOLATION line.
# usage: tools/allseeds.sh [seed ids...]     (sequential; each run uses VP_WORKERS=6)
cd /verif
ids="$@"; [ -z "$ids" ] && ids=$(ls seeded | grep -E '^C[0-9]+_[0-9]+$')
for id in $ids; do
  read P T O < <(python3 -c "import json;d=json.load(open('seeded/$id/meta.json'))['check'];print(d['property'],d['tier'],d['only'])")
  out=$(bash tools/mutrun.sh /verif/seeded/$id $P $T "$O" 2>&1)
  rc=$(echo "$out" | grep -o "rc=[0-9]*" | head -1)
  n=$(echo "$out" | grep -c "^VIOLATION")
  echo "$id $P $T $rc violations=$n $([ "$rc" = "rc=1" ] && [ $n -gt 0 ] && echo CAUGHT || echo MISSED)"
done

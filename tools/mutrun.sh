#!/bin/bash
# usage: mutrun.sh <seed dir> <prop> <tier> [only-regex]
S=$1; P=$2; T=$3; O=$4
rm -rf /tmp/mut_$$; mkdir -p /tmp/mut_$$; cp -r /repo/include /tmp/mut_$$/include
(cd /tmp/mut_$$ && patch -p1 -s < $S/patch.diff) || { echo PATCHFAIL; exit 9; }
cd /verif
export VP_EVIDENCE_DIR=/tmp/mut_ev_$$ VP_REPLAY_DIR=/tmp/mut_ev_$$
if [ -n "$O" ]; then VP_REPO=/tmp/mut_$$ VP_WORKERS=6 python3 vp.py check $P --tier $T --only "$O" > /tmp/mut_$$.log 2>&1; else VP_REPO=/tmp/mut_$$ VP_WORKERS=6 python3 vp.py check $P --tier $T > /tmp/mut_$$.log 2>&1; fi
rc=$?
echo "seed=$S prop=$P tier=$T rc=$rc"
grep "^VIOLATION\|^UNDEC" /tmp/mut_$$.log | cut -c1-200 | head -6
tail -1 /tmp/mut_$$.log
rm -rf /tmp/mut_$$ /tmp/mut_ev_$$

#!/usr/bin/env python3
"""writes /verif/MANIFEST.json from the table below (kept in one place so that claimed / not-applicable stay in sync)"""
import json
import os

HERE = os.path.dirname(os.path.dirname(os.path.abspath(__file__)))
TECH = 'contract-based deductive verification: CBMC 6.11 function contracts (goto-instrument --dfcc, enforce / replace-call-with-contract) on C extracted mechanically from clang -O0 IR of the real headers'
NOTE = ('trusted: clang 14 front end (C++ -> IR), vplib/ll2c.py IR->C printer, CBMC + SAT back ends; exact arithmetic in finite '
        'vectors sized per contract; results are per listed instantiation (programs quantifier sampled by the instantiation plan); ')

CLAIMED = {
    'C01': ('scaled_integer +,-,*,unary -: the value relation ret*R^e == l*R^El (op) r*R^Er is a postcondition of every layer (default_scale, '
            'aligned tag-level operator, wrapper-level operator, public operator), callers proved against callee contracts, for all rep values; '
            'the exponent, radix and promoted-rep rules of the result type are compile-time facts compared with the statement; unary minus and built-in integer operands (exponent 0) as whole-operator jobs', '5 C01',
            'multiplication claimed to 32x32-bit reps; CNL-wrapper reps via C05/C11'),
    'C02': ('/ and % on scaled_integer proved to be the built-in operators on the reps (layers L2/L3) with exponents exp(a)-exp(b) / exp(a); '
            'built-in / and % proved against the division-free definition for 8/16-bit operands; quotient() proved to be the truncated true quotient for every input', '5 C02',
            'machine division at 32/64 bits trusted to obey the language definition; radix 2 only'),
    'C03': ('each comparison operator on scaled_integer (all exponent orders, built-in operand) and elastic_integer (all digit/signedness mixes) is '
            'proved equal to the true relation of the exponent-aligned reps / of the values, for all operand values; built-in integer operands on either side', '5 C03', 'wide_integer comparisons under C10'),
    'C04': ('scaled_integer conversions: integer->integer (value preserved / truncated toward zero at the destination resolution) on the tag-level convert operator and the '
            'converting constructor, scaled_integer <-> built-in integer, integer->float as the correctly rounded value (incl. 64-bit reps) with the identity round trip, float->integer as truncation of the exactly scaled value, for all source values in range', '5 C04',
            'long double not modelled (x87); radix 10 not claimed'),
    'C05': ('elastic_integer + - * / % and unary -: exact result and result within the digits the library reports, as postconditions of the tag-level, wrapper-level and public '
            'operators; the built-in operator on the result rep is replaced by the contract "no wrap", so a too-narrow rep or digit rule fails a call-site precondition', '5 C05',
            'multiplication/division claimed up to the SAT budget (<= 64 result bits); multi-word storage under C10'),
    'C06': ('overflow detection iff the exact result leaves the result range, and the per-tag reaction, as contracts on is_overflow / builtin_overflow_operator / '
            'overflow_polarity / overflow_operator (leaves) and custom_operator (callers, leaves replaced by contract), under both detection paths, for all operand values; '
            'known defects are carved out by input region and reported as KNOWN-FINDING', '5 C06',
            'portable 64/128-bit multiply predicates beyond SAT; float sources not claimed'),
    'C07': ('the whole tagged operator with every callee inlined: every UB flag of the IR (nsw, shift count, sdiv, unreachable/CNL_ASSERT) is a discharged obligation '
            'for all operands except zero divisor / negative shift count, both detection paths, debug and NDEBUG flavours', '5 C07', 'as C06'),
    'C08': ('division under nearest / tie-to-+inf / floor / native rounding: division-free correctly-rounded-quotient postconditions for all (a,b) of 8-bit (quick) and 16/32-bit (thorough) reps, '
            'through the tag-level operator, the wrapper-level operator and rounding_integer operator/; the non-division operators of rounding_integer under the three non-native tags against the built-in expression', '5 C08', '64-bit reps and mixed signedness not claimed; signed 32-bit tie_to_pos_inf / neg_inf not claimed (solver timeout)'),
    'C09': ('rounding conversions: finer->coarser scaled_integer and scaled_integer->built-in integer under nearest / tie-to-+inf / floor with division-free correctly-rounded postconditions for all source values whose result is representable; '
            'float/double -> integer under tie-to-+inf and floor through CBMC IEEE-754; the float-adjacent-to-tie defect is a KNOWN-FINDING', '5 C09',
            'nearest float->integer uses long double (x87): refused; long double sources not claimed'),
    'C10': ('wide_integer beyond 128 bits: + - unary- & | ^, all six comparisons, ++ --, construction from / conversion to built-in integers, and << >> by each constant count of a boundary-rich set, on the public operators proved equal to the storage-width two\'s-complement operation on the concatenated limbs, '
            'for all operand values, limb loops closed by complete unwinding; same contracts for 16/32/64-bit limbs (thorough)', '5 C10',
            'multi-limb * / %, shifts with a SYMBOLIC count, decimal text and float conversion are beyond the back ends here (not claimed); operator~ does not compile beyond 128 bits'),
    'C11': ('static_integer / static_number: public + - * (and / , narrowing conversion in the thorough tier) with the whole overflow/elastic/rounding/wide tower inlined: exact (or correctly rounded) result within the declared digits of the result type, '
            'or the tag\'s overflow reaction; operation chains follow from requires = ensures-type-invariant', '5 C11',
            'small digit counts only (7..15): whole-tower inlining is memory-bound; multi-word storage under C10'),
    'C12': ('native-tag wrappers: every public operator (and wrapper-level / plain-operator layer) proved equal to the built-in expression on the reps under exactly the precondition '
            '"the built-in expression is defined", for all operand values; promoted result type as compile-time fact; unary - + ~, compound assignment, pre/post ++ -- and wrapper-vs-built-in comparisons as whole-operator jobs; the GCC detection path under native_overflow_tag for + - *', '5 C12', '64x64-bit multiply/divide equalities not claimed'),
    'C13': ('integer to_chars: DFCC frame obligation assigns([first,last)), pointer/bounds obligations, and the result contract (ptr in (first,last] on success, ptr == last && value_too_large on failure, '
            'bytes after ptr untouched) for every value and every buffer length 0..capacity+2, bases 10, 2, 16 (36 thorough); to_chars_static never fails; recursion closed by complete unwinding', '5 C13',
            'scaled_integer / wide / 64-bit to_chars and operator<< not claimed'),
    'C14': ('integer text: the characters written by to_chars are the canonical numeral of exactly the value (length, sign, every digit through a ghost index) in bases 10 and 16 (11, 36 thorough) for all values of 8/16-bit (quick) and uint32_t (thorough) integers', '5 C14',
            'scaled_integer text, int32_t, 64-bit and wide integers, to_string/operator<< not claimed'),
    'C15': ('BOUNDED stand-in, not a proof: run-time cnl::_impl::parse<int64_t>(char const*) (the algorithm the literal operators evaluate at compile time: strlen, scan_string, scan_base, scan_msb, parse_string and the digit/scale lambdas, '
            'all real extracted bodies) returns exactly the value the token denotes for every well-formed decimal / hexadecimal / octal / binary token, positive and negative, of at most 6/5/6/8 digits (quick) and 10/8/10/16 digits (thorough), '
            'all loops closed by complete unwinding for that bound; requires/ensures enforced by the harness (assume/assert) because DFCC instrumentation of the function-pointer dispatch ran out of memory', '5 C15',
            'NOT covered: the literal operators _c/_cnl/_cnl2/_wide and constant<>-driven deduction themselves (compile-time only: no function remains in the IR), digit separators, fractional parts, tokens beyond the bound (chunk boundaries not crossed), frame condition', 'model_checking'),
    'C16': ('fraction: rational-value postconditions for + - * /, unary - +, and the six comparisons (8/16-bit components), reduce / canonical / std::hash for all int8_t fractions '
            '(std::gcd unwound completely), conversion to float', '5 C16', '>= 32-bit reduce/hash not claimed; multiplication abstracted as an uninterpreted function for the relational clauses'),
    'C18': ('every bit/digit utility of cnl/bit.h and cnl/numeric.h at each width and under both preprocessor configurations carries a contract stating the C++20 <bit> definition as a closed '
            'bit-vector characterisation; CBMC discharges each postcondition and every UB obligation for all 2^N values; recursive definitions proved inductively (--enforce-contract-rec)', '5 C18',
            'termination of the recursions not proved'),
    'C19': ('integer sqrt: r*r <= x < (r+1)^2 in a wide vector with the loops closed by complete unwinding (termination included) for 8/16-bit (quick) and 32-bit (thorough) types; '
            'elastic and scaled overloads proved against the leaf contract; 64-bit is a bounded stand-in reported separately', '5 C19', '64/128-bit not proved'),
}

NOT_APPLICABLE = {
    'C15': 'literals, CTAD and constant<>-driven deduction exist only at compile time: clang folds them, the IR holds only the resulting constant, so there is no function to put a contract on (the run-time parse() algorithm is checked, bounded, under the C15 claim)',
    'C17': 'the mediant search is an unbounded loop whose exit and integer intermediates are controlled by floating-point comparisons, divisions and products; no inductive argument within CBMC\'s bit-level float encoding, unrolling is beyond every back end here; long double inputs are x87',
    'C20': 'the accuracy bound is against a transcendental function: only an extensional table spec is possible; it was built (specs/attic) and measured -- one postcondition of the int8 instantiation took 375 s and 23 GB, the 16-bit instantiation ran out of memory -- so it is not registered; the constants are closed compile-time terms with no inputs',
}


def main():
    checks = []
    for pid in sorted(CLAIMED):
        text, ref, lim = CLAIMED[pid][:3]
        cat = CLAIMED[pid][3] if len(CLAIMED[pid]) > 3 else 'proof'
        checks.append({
            'property_id': pid,
            'quick_cmd': 'python3 vp.py check %s --tier quick' % pid,
            'thorough_cmd': 'python3 vp.py check %s --tier thorough' % pid,
            'evidence_file': '/verif/evidence/%s.json' % pid,
            'replay_cmd_template': 'python3 vp.py replay {path}',
            'engine': 'vp',
            'level_claimed': {'category': cat, 'text': text, 'design_ref': 'DESIGN.md section ' + ref},
            'level_note': NOTE + lim,
            'technique': TECH,
        })
    m = {
        'version': 1,
        'setup_cmd': 'python3 -m compileall -q vplib specs vp.py && python3 vp.py selfcheck',
        'hooks': {
            'guard': 'JOHNMCFARLANE_CNL_VERIF',
            'enable': 'no source hooks are needed: detection paths are selected with -U__clang__ on the clang command line; traps/unreachable are extraction stubs in the proof and child processes in native replay',
            'baseline_off_cmd': 'ctest --test-dir /repo/_build -j8 --timeout 900',
            'source_commits': [],
            'add_only': True,
        },
        'engines': [{'name': 'vp', 'path': '/verif/vp.py', 'serves_properties': sorted(CLAIMED),
                     'kind_free_text': 'clang -O0 IR -> C extraction (vplib/ll2c.py) + CBMC 6.11 code contracts (goto-instrument --dfcc), native replay of counterexamples through extern "C" shims'}],
        'checks': checks,
        'not_applicable': [{'property_id': k, 'reason': v} for k, v in sorted(NOT_APPLICABLE.items()) if k not in CLAIMED],
        'notes': 'genuine defects found are repaired by fix: commits in /repo or listed in /verif/known_findings.json (KNOWN-FINDING lines); see DESIGN.md',
    }
    with open(os.path.join(HERE, 'MANIFEST.json'), 'w') as f:
        json.dump(m, f, indent=1)
    print('claimed: %s' % ' '.join(sorted(CLAIMED)))
    print('not applicable: %s' % ' '.join(k for k in sorted(NOT_APPLICABLE) if k not in CLAIMED))


if __name__ == '__main__':
    main()

#!/bin/bash
# regenerates every registered evidence file by running each claimed property's quick check on /repo's working tree (no filter, no
# mutation), rebuilds MANIFEST.json and validates manifest + evidence against the schemas.  Sequential: each check uses all cores.
cd /verif
ids=$(python3 -c "import json;print(' '.join(c['property_id'] for c in json.load(open('MANIFEST.json'))['checks']))")
[ -n "$1" ] && ids="$@"
rc_all=0
for p in $ids; do
  python3 vp.py check $p --tier quick > .work/refresh_$p.log 2>&1; rc=$?
  echo "$p rc=$rc $(tail -1 .work/refresh_$p.log | cut -c1-160)"
  [ $rc -ne 0 ] && rc_all=1
done
python3 tools/mkmanifest.py
python3-vt - <<'PY'
import json, jsonschema, glob
jsonschema.validate(json.load(open('/verif/MANIFEST.json')), json.load(open('/root/.vp/MANIFEST.schema.json')))
es = json.load(open('/root/.vp/EVIDENCE.schema.json'))
for c in json.load(open('/verif/MANIFEST.json'))['checks']:
    d = json.load(open(c['evidence_file']))
    jsonschema.validate(d, es)
    cov = d['coverage']
    ok = d['level'] != 'proof' or cov['obligations'] == cov['discharged'] > 0
    print(c['property_id'], d['tier'], d['level'], cov.get('obligations'), cov.get('discharged'), 'OK' if ok else 'BAD')
print('schemas ok')
PY
exit $rc_all

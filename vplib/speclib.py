"""helpers shared by specs: wide-vector expressions, type spellings, shim text."""
import re

from . import cxxtypes as CT
from .run import Contract, Job, Kernel   # noqa: F401 (re-export)

KERNEL_HEAD = '''// generated kernel TU: forces instantiations, by-value extern "C" shims only
#include <cnl/all.h>
#include <cstdint>
using namespace cnl;
'''

POL = {'pos': 'cnl::_impl::polarity::positive', 'neg': 'cnl::_impl::polarity::negative'}
POLNUM = {'pos': '1', 'neg': '-1'}
OPSYM = {'add': '+', 'subtract': '-', 'multiply': '*', 'divide': '/', 'modulo': '%',
         'shift_left': '<<', 'shift_right': '>>', 'bitwise_and': '&', 'bitwise_or': '|', 'bitwise_xor': '^'}


def T(s):
    return CT.ty(s)


def cxx(s):
    """C++ spelling for a short type name"""
    return CT.CXX_NAME[s]


def dem(s):
    """demangled spelling (clang/itanium) of a short type name, regex-escaped"""
    return re.escape(CT.ty(s).name)


def W(n):
    return '__CPROVER_bitvector[%d]' % n


def wval(expr, t, w):
    """C expression: mathematical value of the unsigned-storage expression `expr` of C++ type t, in W(w)"""
    if t.signed:
        return '((%s)(%s)(%s))' % (W(w), t.sctype, expr)
    return '((%s)(%s))' % (W(w), expr)


def wconst(v, w):
    """integer constant v as a signed W(w) expression (any width)"""
    neg = v < 0
    a = -v if neg else v
    if a >= (1 << (w - 1)):
        raise ValueError('constant %d does not fit the %d-bit spec vector' % (v, w))
    if a < (1 << 63):
        s = '((%s)%dLL)' % (W(w), a)
    else:
        parts = []
        sh = 0
        while a:
            parts.append('(((unsigned %s)%dU) << %d)' % (W(w), a & 0xffff, sh))
            a >>= 16
            sh += 16
        s = '((%s)(%s))' % (W(w), ' | '.join(parts))
    return '(-%s)' % s if neg else s


def in_range(e, t, w):
    return '(%s >= %s && %s <= %s)' % (e, wconst(t.min, w), e, wconst(t.max, w))


def ret_val(t, w):
    return wval('$RET', t, w)


def pyop(op):
    import operator
    return {'add': operator.add, 'subtract': operator.sub, 'multiply': operator.mul}[op]


def trunc_div(a, b):
    q = abs(a) // abs(b)
    return q if (a < 0) == (b < 0) else -q


def shim(ret, name, params, body):
    """extern "C" by-value shim text; params: list of (short type, name)"""
    ps = ', '.join('%s %s' % (cxx(t), n) for t, n in params)
    return 'extern "C" %s %s(%s) { %s }\n' % (ret if ret in ('bool', 'void', 'int') else cxx(ret), name, ps, body)


# ----------------------------------------------------------------------------- facts: compile-time constants read from the IR

def fact_shim(name, expr):
    """extern "C" nullary function returning a compile-time constant of the instantiation (clang folds it at -O0)"""
    return 'extern "C" long long vp_fact_%s() { return static_cast<long long>(%s); }\n' % (name, expr)


def fact_value(tr, name):
    """value of a fact function, read from its IR body ('ret i64 <const>')"""
    f = tr.mod.funcs.get('vp_fact_' + name)
    if f is None:
        raise KeyError('fact %s not in kernel' % name)
    for ln in f.lines:
        m = re.match(r'\s*ret i64 (-?\d+)\s*$', ln)
        if m:
            return int(m.group(1))
    raise KeyError('fact %s is not a folded constant' % name)


def fact_job(prop, kernel, name, expected, what, layer=0):
    """obligation: a compile-time fact of the instantiation equals what the property statement prescribes"""
    return Job('%s.fact.%s' % (prop, name), kernel, r'^vp_fact_%s$' % re.escape(name),
               Contract(requires=[], ensures=['(int64_t)$RET == %dLL' % expected], assigns=[], note=what),
               shim='vp_fact_' + name, shim_types=[], oracle=lambda: ('value', expected), prop=prop,
               timeout=60, layer=layer, skip_this=False, note=what)


def rep_path(tr, t):
    """field path from a (nested) wrapper struct type to its scalar rep"""
    from .run import scalar_path
    return scalar_path(tr, t)[0]


def arg_rep(tr, fi, k):
    """C expression for the scalar rep behind parameter k (pointer to nested wrapper, pointer to scalar, or scalar)"""
    t = tr.mod.resolve(fi['param_t'][k])
    if t.k == 'ptr':
        return '((*a%d)%s)' % (k, rep_path(tr, t.a))
    return 'a%d' % k


def in_rep(tr, fi, k):
    """same as arg_rep but over the harness-owned input objects (for signal macros / regions)"""
    t = tr.mod.resolve(fi['param_t'][k])
    if t.k == 'ptr':
        return '(vp_in%d%s)' % (k, rep_path(tr, t.a))
    return 'vp_in%d' % k


def pow_const(radix, k, w):
    return wconst(radix ** k, w)


def bits_for(v):
    """bits of a signed vector that holds every integer of magnitude <= v"""
    return int(v).bit_length() + 2

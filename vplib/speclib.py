"""helpers shared by specs: wide-vector expressions, type spellings, shim text."""
import re

from . import cxxtypes as CT
from .run import Contract, Job, Kernel   # noqa: F401 (re-export)

KERNEL_HEAD = '''// generated kernel TU: forces instantiations, by-value extern "C" shims only
#include <cnl/all.h>
#include <cstdint>
using namespace cnl;
'''

POL = {'pos': 'cnl::_impl::polarity::positive', 'neg': 'cnl::_impl::polarity::negative'}
POLNUM = {'pos': '1', 'neg': '-1'}
OPSYM = {'add': '+', 'subtract': '-', 'multiply': '*', 'divide': '/', 'modulo': '%',
         'shift_left': '<<', 'shift_right': '>>', 'bitwise_and': '&', 'bitwise_or': '|', 'bitwise_xor': '^'}


def T(s):
    return CT.ty(s)


def cxx(s):
    """C++ spelling for a short type name"""
    return CT.CXX_NAME[s]


def dem(s):
    """demangled spelling (clang/itanium) of a short type name, regex-escaped"""
    return re.escape(CT.ty(s).name)


def W(n):
    return '__CPROVER_bitvector[%d]' % n


def wval(expr, t, w):
    """C expression: mathematical value of the unsigned-storage expression `expr` of C++ type t, in W(w)"""
    if t.signed:
        return '((%s)(%s)(%s))' % (W(w), t.sctype, expr)
    return '((%s)(%s))' % (W(w), expr)


def wconst(v, w):
    """integer constant v as a signed W(w) expression (any width)"""
    neg = v < 0
    a = -v if neg else v
    if a >= (1 << (w - 1)):
        raise ValueError('constant %d does not fit the %d-bit spec vector' % (v, w))
    if a < (1 << 63):
        s = '((%s)%dLL)' % (W(w), a)
    else:
        parts = []
        sh = 0
        while a:
            parts.append('(((unsigned %s)%dU) << %d)' % (W(w), a & 0xffff, sh))
            a >>= 16
            sh += 16
        s = '((%s)(%s))' % (W(w), ' | '.join(parts))
    return '(-%s)' % s if neg else s


def in_range(e, t, w):
    return '(%s >= %s && %s <= %s)' % (e, wconst(t.min, w), e, wconst(t.max, w))


def ret_val(t, w):
    return wval('$RET', t, w)


def pyop(op):
    import operator
    return {'add': operator.add, 'subtract': operator.sub, 'multiply': operator.mul}[op]


def trunc_div(a, b):
    q = abs(a) // abs(b)
    return q if (a < 0) == (b < 0) else -q


def shim(ret, name, params, body):
    """extern "C" by-value shim text; params: list of (short type, name)"""
    ps = ', '.join('%s %s' % (cxx(t), n) for t, n in params)
    return 'extern "C" %s %s(%s) { %s }\n' % (ret if ret in ('bool', 'void', 'int', 'auto') else cxx(ret), name, ps, body)


# ----------------------------------------------------------------------------- facts: compile-time constants read from the IR

def fact_shim(name, expr):
    """extern "C" nullary function returning a compile-time constant of the instantiation (clang folds it at -O0)"""
    return 'extern "C" long long vp_fact_%s() { constexpr auto vp_v = (%s); return static_cast<long long>(vp_v); }\n' % (name, expr)


def fact_value(tr, name):
    """value of a fact function, read from its IR body ('ret i64 <const>')"""
    f = tr.mod.funcs.get('vp_fact_' + name)
    if f is None:
        raise KeyError('fact %s not in kernel' % name)
    for ln in f.lines:
        m = re.match(r'\s*ret i64 (-?\d+)\s*$', ln)
        if m:
            return int(m.group(1))
    raise KeyError('fact %s is not a folded constant' % name)


def fact_job(prop, kernel, name, expected, what, layer=0):
    """obligation: a compile-time fact of the instantiation equals what the property statement prescribes"""
    return Job('%s.fact.%s' % (prop, name), kernel, r'^vp_fact_%s$' % re.escape(name),
               Contract(requires=[], ensures=['(int64_t)$RET == %dLL' % expected], assigns=[], note=what),
               shim='vp_fact_' + name, shim_types=[], oracle=lambda: ('value', expected), prop=prop,
               timeout=60, layer=layer, skip_this=False, note=what)


def rep_path(tr, t):
    """field path from a (nested) wrapper struct type to its scalar rep"""
    from .run import scalar_path
    return scalar_path(tr, t)[0]


def arg_rep(tr, fi, k):
    """C expression for the scalar rep behind parameter k (pointer to nested wrapper, pointer to scalar, or scalar)"""
    t = tr.mod.resolve(fi['param_t'][k])
    if t.k == 'ptr':
        return '((*a%d)%s)' % (k, rep_path(tr, t.a))
    return 'a%d' % k


def in_rep(tr, fi, k):
    """same as arg_rep but over the harness-owned input objects (for signal macros / regions)"""
    t = tr.mod.resolve(fi['param_t'][k])
    if t.k == 'ptr':
        return '(vp_in%d%s)' % (k, rep_path(tr, t.a))
    return 'vp_in%d' % k


def pow_const(radix, k, w):
    return wconst(radix ** k, w)


def bits_for(v):
    """bits of a signed vector that holds every integer of magnitude <= v"""
    return int(v).bit_length() + 2


# ----------------------------------------------------------------------------- C++ built-in operator semantics as a spec

def builtin_sem(op, L, R, le, re_):
    """The value `l op r` has in C++ for built-in integer operands of types L, R (IntT), as contract text.
    le / re_: C expressions of the unsigned-storage operands.
    returns dict(res=IntT, requires=[...] (exactly 'the built-in expression is defined'), value=C expr of type res.ctype)"""
    if op in ('shift_left', 'shift_right'):
        Res = CT.promote(L)
    elif op in ('equal', 'not_equal', 'less_than', 'greater_than', 'less_than_or_equal', 'greater_than_or_equal'):
        Res = CT.common(L, R)
    else:
        Res = CT.common(L, R)
    N = Res.bits
    w = 2 * max(L.bits, R.bits, N) + 4
    lm, rm = wval(le, L, w), wval(re_, R, w)           # mathematical values
    # operands after conversion to the common type (value-preserving for signed Res, modulo 2^N for unsigned Res)
    # C++ conversion of each operand to the common type, written as the cast chain itself (no detour through the wide vector,
    # so that CBMC sees the same operand expressions as in the extracted code)
    lc = '((%s)(%s)%s)' % (Res.ctype, L.sctype, le)
    rc = '((%s)(%s)%s)' % (Res.ctype, R.sctype, re_)
    lcm, rcm = wval(lc, Res, w), wval(rc, Res, w)
    req = []
    if op in ('add', 'subtract', 'multiply'):
        sym = {'add': '+', 'subtract': '-', 'multiply': '*'}[op]
        ex = '(%s %s %s)' % (lcm, sym, rcm)
        if op == 'multiply':
            # product modulo 2^N through the shared VP_MULn (machine multiply, or one uninterpreted function when a job
            # abstracts multiplication); 'defined' = the signed product does not overflow, through the shared predicate
            if Res.signed:
                req.append('!VP_SMULOVF%d(%s, %s)' % (N, lc, rc))
            return dict(res=Res, requires=req, value='VP_MUL%d(%s, %s)' % (N, lc, rc), w=w)
        if Res.signed:
            req.append('%s >= %s && %s <= %s' % (ex, wconst(Res.min, w), ex, wconst(Res.max, w)))
        return dict(res=Res, requires=req, value='((%s)%s)' % (Res.ctype, ex), w=w)
    if op in ('divide', 'modulo'):
        sym = '/' if op == 'divide' else '%'
        req.append('%s != 0' % rcm)
        if Res.signed:
            req.append('!(%s == %s && %s == -1)' % (lcm, wconst(Res.min, w), rcm))
        # the quotient is computed at the width and signedness of the common type, exactly as the language defines it
        # (and as the extracted code does): no second divider of another width enters the proof
        macro = 'VP_%s%s%d' % ('S' if Res.signed else 'U', 'DIV' if op == 'divide' else 'REM', Res.bits)
        return dict(res=Res, requires=req, value='%s(%s, %s)' % (macro, lc, rc), w=w)
    if op in ('bitwise_and', 'bitwise_or', 'bitwise_xor'):
        sym = {'bitwise_and': '&', 'bitwise_or': '|', 'bitwise_xor': '^'}[op]
        return dict(res=Res, requires=[], value='((%s)(%s %s %s))' % (Res.ctype, lc, sym, rc), w=w)
    if op in ('shift_left', 'shift_right'):
        lp = '((%s)%s)' % (Res.ctype, lm)
        req.append('%s >= 0 && %s < %d' % (rm, rm, N))
        cnt = '((unsigned)(%s))' % re_
        if op == 'shift_left':
            return dict(res=Res, requires=req, value='((%s)(%s << (%s %% %d)))' % (Res.ctype, lp, cnt, N), w=w)
        if Res.signed:
            return dict(res=Res, requires=req, value='((%s)((%s)%s >> (%s %% %d)))' % (Res.ctype, Res.sctype, lp, cnt, N), w=w)
        return dict(res=Res, requires=req, value='((%s)(%s >> (%s %% %d)))' % (Res.ctype, lp, cnt, N), w=w)
    cmp_ = {'equal': '==', 'not_equal': '!=', 'less_than': '<', 'greater_than': '>', 'less_than_or_equal': '<=', 'greater_than_or_equal': '>='}
    if op in cmp_:
        return dict(res=CT.ty('bool'), requires=[], value='(%s %s %s)' % (lcm, cmp_[op], rcm), w=w)
    raise KeyError(op)


def py_builtin(op, L, R, a, b):
    """python oracle of builtin_sem: returns value or None when the built-in expression is undefined"""
    Res = CT.promote(L) if op in ('shift_left', 'shift_right') else CT.common(L, R)
    la, rb = CT.wrap(a, Res), CT.wrap(b, Res)
    if op in ('add', 'subtract', 'multiply'):
        e = {'add': la + rb, 'subtract': la - rb, 'multiply': la * rb}[op]
        if Res.signed and not Res.min <= e <= Res.max:
            return None
        return CT.wrap(e, Res)
    if op in ('divide', 'modulo'):
        if rb == 0 or (Res.signed and la == Res.min and rb == -1):
            return None
        q = trunc_div(la, rb)
        return q if op == 'divide' else la - q * rb
    if op == 'bitwise_and':
        return CT.wrap(la & rb, Res)
    if op == 'bitwise_or':
        return CT.wrap(la | rb, Res)
    if op == 'bitwise_xor':
        return CT.wrap(la ^ rb, Res)
    if op in ('shift_left', 'shift_right'):
        if not 0 <= b < Res.bits:
            return None
        la = CT.wrap(a, Res)
        return CT.wrap(la << b, Res) if op == 'shift_left' else la >> b
    cmp_ = {'equal': lambda x, y: x == y, 'not_equal': lambda x, y: x != y, 'less_than': lambda x, y: x < y,
            'greater_than': lambda x, y: x > y, 'less_than_or_equal': lambda x, y: x <= y, 'greater_than_or_equal': lambda x, y: x >= y}
    return 1 if cmp_[op](la, rb) else 0


def short_of(t):
    """short alias ('i32', ...) of an IntT"""
    for k, v in CT.ALIAS.items():
        if v == t.name and k[0] in 'iu':
            return k
    if t.name == 'bool':
        return 'bool'
    if t.name == 'char':
        return 'i8'
    if t.name in ('long long',):
        return 'i64'
    if t.name in ('unsigned long long',):
        return 'u64'
    raise KeyError(t.name)

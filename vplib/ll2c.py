"""ll2c -- mechanical LLVM-14 textual IR (clang -O0, typed pointers) -> C printer.

Total on a stated instruction subset, raises Unsupported on anything else (the
orchestrator turns that into exit 2 / a refused function, never a verdict).
No semantic decisions are taken here: one IR instruction becomes one C
statement; every abstract-machine UB flag (nsw/nuw, shift counts, sdiv, fptosi,
cttz(x,true), unreachable) becomes a named __CPROVER_assert obligation.

What is dropped is listed in DESIGN.md section 2.3.
"""
import re
import struct
import subprocess
from collections import OrderedDict


class Unsupported(Exception):
    pass


# --------------------------------------------------------------------------
# tokenizer

_TOK = re.compile(r'''
    \s+                                   |
    (?P<cstr>c"(?:[^"\\]|\\[0-9A-Fa-f]{2}|\\\\)*")    |
    (?P<str>"(?:[^"\\]|\\.)*")            |
    (?P<local>%"(?:[^"\\]|\\.)*"|%[-a-zA-Z$._0-9]+)   |
    (?P<glob>@"(?:[^"\\]|\\.)*"|@[-a-zA-Z$._0-9]+)    |
    (?P<comdat>\$"(?:[^"\\]|\\.)*"|\$[-a-zA-Z$._0-9]+) |
    (?P<meta>![-a-zA-Z$._0-9]*)           |
    (?P<attr>\#\d+)                       |
    (?P<hex>0x[KLMHR]?[0-9A-Fa-f]+)       |
    (?P<flt>-?\d+\.\d*(?:[eE][+-]?\d+)?)  |
    (?P<int>-?\d+)                        |
    (?P<ell>\.\.\.)                       |
    (?P<word>[a-zA-Z_][a-zA-Z0-9_.]*)     |
    (?P<p>[(){}\[\]<>,=*:|])
''', re.X)


def tokenize(s):
    out = []
    pos = 0
    n = len(s)
    while pos < n:
        if s[pos] == ';':
            break
        m = _TOK.match(s, pos)
        if not m:
            raise Unsupported('tokenize: %r' % s[pos:pos + 40])
        pos = m.end()
        k = m.lastgroup
        if k is None:
            continue
        out.append((k, m.group(k)))
    return out


# --------------------------------------------------------------------------
# types

class T:
    __slots__ = ('k', 'a', 'b', 'c')

    def __init__(self, k, a=None, b=None, c=None):
        self.k, self.a, self.b, self.c = k, a, b, c

    def key(self):
        k = self.k
        if k == 'int':
            return 'i%d' % self.a
        if k in ('void', 'float', 'double', 'fp80', 'label', 'metadata', 'half', 'fp128'):
            return k
        if k == 'ptr':
            return self.a.key() + '*'
        if k == 'named':
            return '%' + self.a
        if k == 'struct':
            return ('<{' if self.b else '{') + ','.join(x.key() for x in self.a) + '}'
        if k == 'array':
            return '[%d x %s]' % (self.a, self.b.key())
        if k == 'vector':
            return '<%d x %s>' % (self.a, self.b.key())
        if k == 'func':
            return '%s(%s%s)' % (self.a.key(), ','.join(x.key() for x in self.b), ',...' if self.c else '')
        raise Unsupported('type kind ' + k)

    def __repr__(self):
        return self.key()


VOID = T('void')


def I(n):
    return T('int', n)


class Parser:
    """token stream with type/value parsers."""

    def __init__(self, toks, mod):
        self.t = toks
        self.i = 0
        self.mod = mod

    def peek(self, o=0):
        j = self.i + o
        return self.t[j] if j < len(self.t) else (None, None)

    def next(self):
        if self.i >= len(self.t):
            raise Unsupported('unexpected end of instruction: %s' % ' '.join(a[1] for a in self.t)[:200])
        x = self.t[self.i]
        self.i += 1
        return x

    def eof(self):
        return self.i >= len(self.t)

    def accept(self, v):
        if self.peek()[1] == v:
            self.i += 1
            return True
        return False

    def expect(self, v):
        x = self.next()
        if x[1] != v:
            raise Unsupported('expected %r got %r in %r' % (v, x[1], ' '.join(a[1] for a in self.t)[:200]))

    def skip_parens(self):
        self.expect('(')
        d = 1
        while d:
            x = self.next()[1]
            if x == '(':
                d += 1
            elif x == ')':
                d -= 1

    # ---- types
    def type(self):
        k, v = self.next()
        if k == 'word':
            if v == 'void':
                t = VOID
            elif re.fullmatch(r'i\d+', v):
                t = I(int(v[1:]))
            elif v == 'float':
                t = T('float')
            elif v == 'double':
                t = T('double')
            elif v == 'x86_fp80':
                t = T('fp80')
            elif v == 'half':
                t = T('half')
            elif v == 'fp128':
                t = T('fp128')
            elif v == 'label':
                t = T('label')
            elif v == 'metadata':
                t = T('metadata')
            elif v == 'opaque':
                t = T('opaque')
            else:
                raise Unsupported('type word %r' % v)
        elif k == 'local':
            t = T('named', unq(v[1:]))
        elif v == '{':
            t = T('struct', self._members('}'), False)
        elif v == '<':
            if self.peek()[1] == '{':
                self.next()
                t = T('struct', self._members('}'), True)
                self.expect('>')
            else:
                n = int(self.next()[1])
                self.expect('x')
                e = self.type()
                self.expect('>')
                t = T('vector', n, e)
        elif v == '[':
            n = int(self.next()[1])
            self.expect('x')
            e = self.type()
            self.expect(']')
            t = T('array', n, e)
        else:
            raise Unsupported('type token %r' % v)
        while True:
            p = self.peek()[1]
            if p == '*':
                self.next()
                t = T('ptr', t)
            elif p == '(':
                self.next()
                ps = []
                va = False
                if not self.accept(')'):
                    while True:
                        if self.peek()[0] == 'ell':
                            self.next()
                            va = True
                        else:
                            ps.append(self.type())
                        if self.accept(')'):
                            break
                        self.expect(',')
                t = T('func', t, ps, va)
            else:
                break
        return t

    def _members(self, close):
        ms = []
        if self.accept(close):
            return ms
        while True:
            ms.append(self.type())
            if self.accept(close):
                return ms
            self.expect(',')

    ATTRS = set('''noundef nonnull zeroext signext inreg noalias nocapture readonly writeonly readnone
        returned nest immarg nofree swiftself swifterror inalloca byref preallocated noreturn nounwind
        tail musttail notail fastcc ccc coldcc dso_local dso_preemptable local_unnamed_addr unnamed_addr
        nnan ninf nsz arcp contract afn reassoc fast mustprogress willreturn'''.split())

    def attrs(self):
        """skip parameter/return attributes; returns dict of the ones that matter"""
        got = {}
        while True:
            k, v = self.peek()
            if k == 'word' and v in self.ATTRS:
                self.next()
            elif k == 'word' and v in ('align', 'dereferenceable', 'dereferenceable_or_null'):
                self.next()
                if self.peek()[1] == '(':
                    self.skip_parens()
                else:
                    self.next()
            elif k == 'word' and v in ('byval', 'sret', 'elementtype'):
                self.next()
                self.expect('(')
                got[v] = self.type()
                self.expect(')')
            elif k == 'attr':
                self.next()
            else:
                return got

    # ---- values
    def value(self, ty):
        """parse a value of (already parsed) type ty -> V tuple"""
        k, v = self.next()
        if k == 'local':
            return ('local', unq(v[1:]), ty)
        if k == 'glob':
            return ('global', unq(v[1:]), ty)
        if k == 'int':
            return ('int', int(v), ty)
        if k == 'flt':
            return ('fp', float(v), ty)
        if k == 'hex':
            return ('fp', _hexfloat(v, ty), ty)
        if k == 'cstr':
            return ('bytes', _cstr(v), ty)
        if k == 'word':
            if v == 'true':
                return ('int', 1, ty)
            if v == 'false':
                return ('int', 0, ty)
            if v == 'null':
                return ('null', None, ty)
            if v in ('undef', 'poison'):
                return ('undef', None, ty)
            if v == 'zeroinitializer':
                return ('zero', None, ty)
            if v == 'getelementptr':
                self.accept('inbounds')
                self.expect('(')
                bt = self.type()
                self.expect(',')
                pt = self.type()
                pv = self.value(pt)
                idx = []
                while self.accept(','):
                    self.accept('inrange')
                    it = self.type()
                    idx.append(self.value(it))
                self.expect(')')
                return ('cgep', (bt, pv, idx), ty)
            if v in ('bitcast', 'inttoptr', 'ptrtoint', 'trunc', 'zext', 'sext', 'addrspacecast'):
                self.expect('(')
                st = self.type()
                sv = self.value(st)
                self.expect('to')
                dt = self.type()
                self.expect(')')
                return ('ccast', (v, sv, dt), ty)
            if v in ('add', 'sub', 'mul', 'and', 'or', 'xor', 'shl', 'lshr', 'ashr'):
                while self.peek()[1] in ('nsw', 'nuw', 'exact'):
                    self.next()
                self.expect('(')
                at = self.type()
                av = self.value(at)
                self.expect(',')
                bt = self.type()
                bv = self.value(bt)
                self.expect(')')
                return ('cbin', (v, av, bv), ty)
            raise Unsupported('value word %r' % v)
        if v == '{' or (v == '<' and self.peek()[1] == '{'):
            packed = v == '<'
            if packed:
                self.next()
            elems = []
            if not self.accept('}'):
                while True:
                    et = self.type()
                    elems.append(self.value(et))
                    if self.accept('}'):
                        break
                    self.expect(',')
            if packed:
                self.expect('>')
            return ('agg', elems, ty)
        if v == '[':
            elems = []
            if not self.accept(']'):
                while True:
                    et = self.type()
                    elems.append(self.value(et))
                    if self.accept(']'):
                        break
                    self.expect(',')
            return ('agg', elems, ty)
        raise Unsupported('value token %r' % v)

    def tv(self):
        t = self.type()
        return self.value(t)


def unq(s):
    if s.startswith('"'):
        s = s[1:-1]
        s = re.sub(r'\\([0-9A-Fa-f]{2})', lambda m: chr(int(m.group(1), 16)), s)
    return s


def _cstr(v):
    s = v[2:-1]
    out = bytearray()
    i = 0
    while i < len(s):
        if s[i] == '\\':
            if s[i + 1] == '\\':
                out.append(92)
                i += 2
            else:
                out.append(int(s[i + 1:i + 3], 16))
                i += 3
        else:
            out.append(ord(s[i]))
            i += 1
    return bytes(out)


def _hexfloat(v, ty):
    if v[2] in 'KLMHR':
        if v[2] == 'K':
            return ('fp80', v[3:])
        raise Unsupported('hex float kind ' + v)
    bits = int(v[2:], 16)
    return struct.unpack('<d', struct.pack('<Q', bits))[0]


# --------------------------------------------------------------------------
# module structures

class Func:
    def __init__(self):
        self.name = None
        self.ret = None
        self.params = []      # (type, irname or None, attrs)
        self.vararg = False
        self.blocks = OrderedDict()   # label -> list of instr
        self.defined = False
        self.lines = []


class Instr:
    __slots__ = ('res', 'op', 'a', 'ty', 'flags', 'raw')

    def __init__(self, res, op, a=None, ty=None, flags=(), raw=''):
        self.res, self.op, self.a, self.ty, self.flags, self.raw = res, op, a, ty, flags, raw


class Module:
    def __init__(self):
        self.types = OrderedDict()    # name -> T
        self.globals = OrderedDict()  # name -> (type, init V or None, is_const)
        self.funcs = OrderedDict()    # name -> Func
        self.demangled = {}

    # ---------------- parsing
    @staticmethod
    def parse(text):
        m = Module()
        lines = text.split('\n')
        i = 0
        n = len(lines)
        while i < n:
            ln = lines[i]
            i += 1
            if not ln or ln[0] in ';!$ ' or ln.startswith(('source_filename', 'target ', 'attributes ')):
                continue
            if ln.startswith('%'):
                toks = tokenize(ln)
                p = Parser(toks, m)
                name = unq(p.next()[1][1:])
                p.expect('=')
                p.expect('type')
                m.types[name] = p.type()
                continue
            if ln.startswith('@'):
                m._global(ln)
                continue
            if ln.startswith('declare'):
                f = m._header(ln)
                m.funcs.setdefault(f.name, f)
                continue
            if ln.startswith('define'):
                f = m._header(ln)
                f.defined = True
                body = []
                while lines[i] != '}':
                    body.append(lines[i])
                    i += 1
                i += 1
                f.lines = body
                m.funcs[f.name] = f
                continue
            raise Unsupported('top-level: ' + ln[:80])
        return m

    LINK = set('''private internal available_externally linkonce weak common appending extern_weak
        linkonce_odr weak_odr external default hidden protected dllimport dllexport thread_local
        dso_local dso_preemptable unnamed_addr local_unnamed_addr externally_initialized
        noundef zeroext signext noalias nonnull'''.split())

    def _global(self, ln):
        p = Parser(tokenize(ln), self)
        name = unq(p.next()[1][1:])
        p.expect('=')
        while p.peek()[1] in self.LINK:
            p.next()
            if p.peek()[1] == '(':
                p.skip_parens()
        kind = p.next()[1]
        if kind == 'alias' or kind == 'ifunc':
            raise Unsupported('alias global')
        if kind not in ('global', 'constant'):
            raise Unsupported('global kind %r' % kind)
        ty = p.type()
        init = None
        if not p.eof() and p.peek()[1] != ',':
            init = p.value(ty)
        self.globals[name] = (ty, init, kind == 'constant')

    def _header(self, ln):
        p = Parser(tokenize(ln), self)
        p.next()
        f = Func()
        while True:
            k, v = p.peek()
            if k == 'word' and (v in self.LINK or v in Parser.ATTRS):
                p.next()
                if p.peek()[1] == '(' and v in ('dereferenceable', 'align'):
                    p.skip_parens()
            elif k == 'word' and v in ('align', 'dereferenceable', 'dereferenceable_or_null'):
                p.next()
                if p.peek()[1] == '(':
                    p.skip_parens()
                else:
                    p.next()
            else:
                break
        f.ret = p.type()
        f.name = unq(p.next()[1][1:])
        p.expect('(')
        if not p.accept(')'):
            while True:
                if p.peek()[0] == 'ell':
                    p.next()
                    f.vararg = True
                else:
                    t = p.type()
                    at = p.attrs()
                    nm = None
                    if p.peek()[0] == 'local':
                        nm = unq(p.next()[1][1:])
                    f.params.append((t, nm, at))
                if p.accept(')'):
                    break
                p.expect(',')
        return f

    def demangle(self):
        names = [n for n in self.funcs]
        if not names:
            return
        out = subprocess.run(['llvm-cxxfilt-14'], input='\n'.join(names) + '\n',
                             capture_output=True, text=True, check=True).stdout.split('\n')
        for n, d in zip(names, out):
            self.demangled[n] = d

    def resolve(self, t):
        while t.k == 'named':
            if t.a not in self.types:
                raise Unsupported('unknown type %' + t.a)
            t = self.types[t.a]
        return t


# --------------------------------------------------------------------------
# function body parsing

BINOPS = {'add', 'sub', 'mul', 'udiv', 'sdiv', 'urem', 'srem', 'shl', 'lshr', 'ashr', 'and', 'or', 'xor'}
FBINOPS = {'fadd', 'fsub', 'fmul', 'fdiv', 'frem'}
CASTS = {'zext', 'sext', 'trunc', 'fptosi', 'fptoui', 'sitofp', 'uitofp', 'fpext', 'fptrunc',
         'bitcast', 'ptrtoint', 'inttoptr'}
FMF = {'nnan', 'ninf', 'nsz', 'arcp', 'contract', 'afn', 'reassoc', 'fast'}


def parse_body(mod, f):
    """fills f.blocks from f.lines"""
    blocks = OrderedDict()
    cur = None
    # implicit entry label: clang names it 'entry' with value names kept
    pend = None
    lines = f.lines
    i = 0
    n = len(lines)
    while i < n:
        ln = lines[i]
        i += 1
        s = ln.strip()
        if not s or s.startswith(';'):
            continue
        m = re.match(r'^("(?:[^"\\]|\\.)*"|[-a-zA-Z$._0-9]+):', ln)
        if m and not ln.startswith(' '):
            cur = []
            blocks[unq(m.group(1))] = cur
            continue
        if cur is None:
            cur = []
            blocks['%entry0'] = cur
        # multi-line instructions: switch [...] and landingpad clauses
        if s.startswith('switch '):
            while ']' not in s:
                s += ' ' + lines[i].strip()
                i += 1
        if re.search(r'(^|= )invoke ', s):
            while ' unwind label ' not in s and i < n:
                s += ' ' + lines[i].strip()
                i += 1
        if 'landingpad' in s:
            while i < n and re.match(r'^\s+(catch|cleanup|filter)\b', lines[i]):
                s += ' ' + lines[i].strip()
                i += 1
        cur.append(parse_instr(mod, s))
    f.blocks = blocks


def parse_instr(mod, s):
    toks = tokenize(s)
    # strip trailing metadata attachments ", !x !n" and "#n" groups
    cut = len(toks)
    for j, (k, v) in enumerate(toks):
        if k == 'meta':
            cut = j
            while cut > 0 and toks[cut - 1][1] == ',':
                cut -= 1
            break
    toks = toks[:cut]
    p = Parser(toks, mod)
    res = None
    if p.peek()[0] == 'local' and p.peek(1)[1] == '=':
        res = unq(p.next()[1][1:])
        p.next()
    k, op = p.next()
    if op in ('tail', 'musttail', 'notail'):
        k, op = p.next()
    if op in BINOPS:
        flags = []
        while p.peek()[1] in ('nsw', 'nuw', 'exact'):
            flags.append(p.next()[1])
        t = p.type()
        a = p.value(t)
        p.expect(',')
        b = p.value(t)
        return Instr(res, op, (a, b), t, tuple(flags), s)
    if op in FBINOPS or op == 'fneg':
        while p.peek()[1] in FMF:
            p.next()
        t = p.type()
        a = p.value(t)
        if op == 'fneg':
            return Instr(res, op, (a,), t, (), s)
        p.expect(',')
        b = p.value(t)
        return Instr(res, op, (a, b), t, (), s)
    if op in ('icmp', 'fcmp'):
        while p.peek()[1] in FMF:
            p.next()
        pred = p.next()[1]
        t = p.type()
        a = p.value(t)
        p.expect(',')
        b = p.value(t)
        return Instr(res, op, (pred, a, b), I(1), (), s)
    if op in CASTS:
        st = p.type()
        v = p.value(st)
        p.expect('to')
        dt = p.type()
        return Instr(res, 'cast', (op, v, dt), dt, (), s)
    if op == 'alloca':
        p.accept('inalloca')
        t = p.type()
        cnt = None
        if p.accept(','):
            if p.peek()[1] == 'align':
                pass
            else:
                ct = p.type()
                cnt = p.value(ct)
        return Instr(res, op, (t, cnt), T('ptr', t), (), s)
    if op == 'load':
        if p.peek()[1] == 'atomic':
            raise Unsupported('atomic load')
        p.accept('volatile')
        t = p.type()
        p.expect(',')
        pt = p.type()
        pv = p.value(pt)
        return Instr(res, op, (pv,), t, (), s)
    if op == 'store':
        if p.peek()[1] == 'atomic':
            raise Unsupported('atomic store')
        p.accept('volatile')
        v = p.tv()
        p.expect(',')
        pv = p.tv()
        return Instr(None, op, (v, pv), None, (), s)
    if op == 'getelementptr':
        p.accept('inbounds')
        bt = p.type()
        p.expect(',')
        pv = p.tv()
        idx = []
        while p.accept(','):
            idx.append(p.tv())
        return Instr(res, 'gep', (bt, pv, idx), None, (), s)
    if op in ('call', 'invoke'):
        while p.peek()[1] in FMF or p.peek()[1] in ('fastcc', 'ccc', 'coldcc'):
            p.next()
        p.attrs()
        rt = p.type()
        # rt may be a full function type (varargs / fn ptr returning) - callee follows
        k2, v2 = p.peek()
        if k2 == 'word' and v2 == 'asm':
            raise Unsupported('inline asm')
        fnty = None
        if rt.k == 'func':
            fnty = rt
            rt = fnty.a
        elif rt.k == 'ptr' and rt.a.k == 'func' and p.peek()[0] in ('local', 'glob') and p.peek(1)[1] != '(':
            pass
        callee = p.value(T('ptr', fnty) if fnty else None)
        p.expect('(')
        args = []
        if not p.accept(')'):
            while True:
                at = p.type()
                aa = p.attrs()
                av = p.value(at)
                args.append((av, aa))
                if p.accept(')'):
                    break
                p.expect(',')
        dest = None
        if op == 'invoke':
            p.attrs()
            p.expect('to')
            p.expect('label')
            dest = unq(p.next()[1][1:])
            # unwind label ignored
        return Instr(res, 'call', (callee, args, dest, fnty), rt, (), s)
    if op == 'br':
        if p.peek()[1] == 'label':
            p.next()
            return Instr(None, 'br', (unq(p.next()[1][1:]),), None, (), s)
        c = p.tv()
        p.expect(',')
        p.expect('label')
        a = unq(p.next()[1][1:])
        p.expect(',')
        p.expect('label')
        b = unq(p.next()[1][1:])
        return Instr(None, 'condbr', (c, a, b), None, (), s)
    if op == 'switch':
        v = p.tv()
        p.expect(',')
        p.expect('label')
        d = unq(p.next()[1][1:])
        p.expect('[')
        cases = []
        while not p.accept(']'):
            cv = p.tv()
            p.expect(',')
            p.expect('label')
            cases.append((cv, unq(p.next()[1][1:])))
        return Instr(None, 'switch', (v, d, cases), None, (), s)
    if op == 'ret':
        t = p.type()
        if t.k == 'void':
            return Instr(None, 'ret', (None,), None, (), s)
        return Instr(None, 'ret', (p.value(t),), t, (), s)
    if op == 'unreachable':
        return Instr(None, 'unreachable', (), None, (), s)
    if op == 'resume':
        return Instr(None, 'resume', (), None, (), s)
    if op == 'landingpad':
        return Instr(res, 'landingpad', (), None, (), s)
    if op == 'phi':
        while p.peek()[1] in FMF:
            p.next()
        t = p.type()
        inc = []
        while True:
            p.expect('[')
            v = p.value(t)
            p.expect(',')
            l = unq(p.next()[1][1:])
            p.expect(']')
            inc.append((v, l))
            if not p.accept(','):
                break
        return Instr(res, 'phi', (inc,), t, (), s)
    if op == 'select':
        while p.peek()[1] in FMF:
            p.next()
        c = p.tv()
        p.expect(',')
        a = p.tv()
        p.expect(',')
        b = p.tv()
        return Instr(res, 'select', (c, a, b), a[2], (), s)
    if op == 'extractvalue':
        a = p.tv()
        idx = []
        while p.accept(','):
            idx.append(int(p.next()[1]))
        return Instr(res, 'extractvalue', (a, idx), None, (), s)
    if op == 'insertvalue':
        a = p.tv()
        p.expect(',')
        b = p.tv()
        idx = []
        while p.accept(','):
            idx.append(int(p.next()[1]))
        return Instr(res, 'insertvalue', (a, b, idx), a[2], (), s)
    if op == 'freeze':
        a = p.tv()
        return Instr(res, 'freeze', (a,), a[2], (), s)
    raise Unsupported('instruction %r' % op)


# --------------------------------------------------------------------------
# C emission

def san(s):
    return re.sub(r'[^A-Za-z0-9_]', '_', s)


class CGen:
    def __init__(self, mod, stubs=None, short_names=True):
        self.mod = mod
        self.stubs = stubs or []      # list of (regex on demangled, stub kind)
        self.struct_names = {}        # type key -> C struct name
        self.struct_defs = OrderedDict()   # C name -> (T, state)
        self.fptypes = OrderedDict()  # key -> typedef name
        self.order = []               # emitted type decls in dependency order
        self.cname = {}               # ir function name -> C name
        self.gname = {}
        self.refused = {}             # ir function -> reason
        self.used_helpers = set()
        self.odd_widths = set()
        self._emitted = set()
        k = 0
        for name in mod.funcs:
            d = mod.demangled.get(name, name)
            if name.startswith('_Z') and short_names:
                base = re.sub(r'<.*', '', d)
                base = re.sub(r'\(.*', '', base)
                base = san(base.split('::')[-1] if '::' in base else base)[:24]
                # include the enclosing class for operator()
                m = re.search(r'([A-Za-z_0-9]+)(?:<[^()]*>)?::operator\(\)', d)
                if m:
                    base = san(m.group(1))[:24] + '_call'
                self.cname[name] = 'F%d_%s' % (k, base)
            else:
                self.cname[name] = san(name) if not name.startswith('llvm.') else None
            k += 1
        for j, g in enumerate(mod.globals):
            self.gname[g] = 'G%d_%s' % (j, san(g)[:24])

    # ---- types
    def ctype(self, t):
        k = t.k
        if k == 'int':
            n = t.a
            if n == 1:
                return '_Bool'
            if n in (8, 16, 32, 64):
                return 'uint%d_t' % n
            if n == 128:
                return 'vp_u128'
            if 1 < n < 256:
                self.odd_widths.add(n)
                return 'vp_u%d' % n
            raise Unsupported('integer width i%d' % n)
        if k == 'float':
            return 'float'
        if k == 'double':
            return 'double'
        if k == 'fp80':
            # storage only (clang allocates the long double temporaries of dead '?:' arms in the entry block); every
            # *operation* on an x86_fp80 value in a live block still refuses the function (CBMC's long double is binary128)
            return 'struct vp_fp80'
        if k == 'void':
            return 'void'
        if k == 'ptr':
            if t.a.k == 'func':
                return self.fptype(t.a)
            if t.a.k == 'void':
                return 'void*'
            return self.ctype(t.a) + '*'
        if k == 'named':
            return self.named_struct(t.a)
        if k == 'struct':
            return self.lit_struct(t)
        if k == 'array':
            return self.arr_struct(t)
        if k == 'opaque':
            raise Unsupported('opaque value')
        raise Unsupported('ctype of ' + k)

    def named_struct(self, name):
        key = '%' + name
        if key in self.struct_names:
            return self.struct_names[key]
        cn = 'struct S%d_%s' % (len(self.struct_names), san(name)[-28:])
        self.struct_names[key] = cn
        body = self.mod.types.get(name)
        if body is None:
            raise Unsupported('unknown named type ' + name)
        self.struct_defs[cn] = ['named', body, None]
        return cn

    def lit_struct(self, t):
        key = t.key()
        if key in self.struct_names:
            return self.struct_names[key]
        cn = 'struct L%d' % len(self.struct_names)
        self.struct_names[key] = cn
        self.struct_defs[cn] = ['lit', t, None]
        return cn

    def arr_struct(self, t):
        key = t.key()
        if key in self.struct_names:
            return self.struct_names[key]
        cn = 'struct A%d_%d' % (len(self.struct_names), t.a)
        self.struct_names[key] = cn
        self.struct_defs[cn] = ['arr', t, None]
        return cn

    def fptype(self, ft):
        key = ft.key()
        if key in self.fptypes:
            return self.fptypes[key][0]
        nm = 'FP%d' % len(self.fptypes)
        self.fptypes[key] = (nm, ft)
        return nm

    def emit_types(self):
        """struct definitions in dependency order; run after all functions were generated.
        Iterates because emitting may register new types."""
        out = []
        done = set()
        fwd = []

        def need(t, by_value):
            k = t.k
            if k in ('named', 'struct', 'array'):
                cn = self.ctype(t)
                if by_value:
                    emit(cn)
            elif k == 'ptr':
                if t.a.k == 'func':
                    self.fptype(t.a)
                elif t.a.k in ('named', 'struct', 'array'):
                    self.ctype(t.a)

        def emit(cn):
            if cn in done:
                return
            done.add(cn)
            kind, t, _ = self.struct_defs[cn]
            if kind == 'arr':
                need(t.b, True)
                et = self.ctype(t.b)
                n = t.a
                out.append('%s { %s a[%d]; };' % (cn, et, max(n, 1)))
                return
            body = t
            if body.k == 'opaque':
                return
            if body.k != 'struct':
                raise Unsupported('named non-struct type')
            for m in body.a:
                need(m, True)
            ms = ' '.join('%s f%d;' % (self.ctype(m), j) for j, m in enumerate(body.a))
            if not body.a:
                ms = ''
            out.append('%s { %s }%s;' % (cn, ms, ' __attribute__((packed))' if body.b else ''))

        while True:
            todo = [cn for cn in self.struct_defs if cn not in done]
            if not todo:
                break
            for cn in todo:
                emit(cn)
        fwd = ['%s;' % cn for cn in self.struct_defs]
        fps = []
        # function pointer typedefs may reference structs (by pointer or value): after structs
        ndone = 0
        while ndone < len(self.fptypes):
            items = list(self.fptypes.values())[ndone:]
            ndone += len(items)
            for nm, ft in items:
                ps = ', '.join(self.ctype(x) for x in ft.b) or 'void'
                if ft.c:
                    ps += ', ...'
                fps.append('typedef %s (*%s)(%s);' % (self.ctype(ft.a), nm, ps))
        # new structs may have appeared
        for cn in [c for c in self.struct_defs if c not in done]:
            emit(cn)
        fwd = ['%s;' % cn for cn in self.struct_defs]
        return '\n'.join(fwd) + '\n' + self._order_fp_structs(out, fps)

    def _order_fp_structs(self, structs, fps):
        # function-pointer typedefs only need forward declared structs unless by-value params
        # (C allows incomplete types in function declarators), so typedefs can go first.
        return '\n'.join(fps) + '\n' + '\n'.join(structs) + '\n'

    # ---- constants
    def intlit(self, v, bits):
        v &= (1 << bits) - 1
        if bits == 1:
            return '1' if v else '0'
        if bits <= 32:
            return '((uint%d_t)%dU)' % (bits, v) if bits < 32 else '%dU' % v
        if bits == 64:
            return '%dULL' % v
        if bits not in (128,) and bits < 64:
            return '((vp_u%d)%dULL)' % (bits, v)
        if bits not in (128,) and bits > 64:
            hi, lo = v >> 64, v & ((1 << 64) - 1)
            return '((((vp_u%d)%dULL) << 64) | (vp_u%d)%dULL)' % (bits, hi, bits, lo)
        if bits == 128:
            hi, lo = v >> 64, v & ((1 << 64) - 1)
            if hi == 0:
                return '((vp_u128)%dULL)' % lo
            return '((((vp_u128)%dULL) << 64) | (vp_u128)%dULL)' % (hi, lo)
        raise Unsupported('int literal width %d' % bits)

    def fplit(self, x, t):
        if isinstance(x, tuple):
            raise Unsupported('x86_fp80')
        suf = 'f' if t.k == 'float' else ''
        if x != x:
            return '((%s)__builtin_nan(""))' % self.ctype(t)
        if x in (float('inf'), float('-inf')):
            return '(%s(%s)__builtin_inf())' % ('-' if x < 0 else '', self.ctype(t))
        return '(%s%s)' % (float(x).hex(), suf)


class FuncGen:
    """one IR function -> C text"""

    def __init__(self, cg, f, loopspec=None):
        self.cg = cg
        self.mod = cg.mod
        self.f = f
        self.names = {}
        self.used = set()
        self.decls = []
        self.types = {}      # ir local name -> T
        self.undef_n = 0
        self.loopspec = loopspec
        self.ext = {}
        self.short = cg.cname.get(f.name) or san(f.name)

    def lname(self, n, prefix='v_'):
        if n in self.names:
            return self.names[n]
        c = prefix + san(n)
        while c in self.used:
            c += '_'
        self.used.add(c)
        self.names[n] = c
        return c

    def rt(self, t):
        return self.mod.resolve(t)

    # -- value -> C expression
    def val(self, v):
        k, x, t = v
        if k == 'local':
            return self.names[x] if x in self.names else self.lname(x)
        if k == 'int':
            tt = self.rt(t)
            if tt.k != 'int':
                raise Unsupported('int const of type ' + tt.key())
            return self.cg.intlit(x, tt.a)
        if k == 'fp':
            return self.cg.fplit(x, self.rt(t))
        if k == 'null':
            return '((%s)0)' % self.cg.ctype(t)
        if k == 'global':
            if x in self.mod.funcs:
                cn = self.cg.cname.get(x)
                if cn is None:
                    raise Unsupported('address of intrinsic')
                self.cg_ref_func(x)
                return cn
            if x in self.mod.globals:
                return '((%s*)&%s)' % (self.cg.ctype(self.mod.globals[x][0]), self.cg.gname[x])
            raise Unsupported('unknown global @' + x)
        if k == 'undef' or k == 'zero':
            ct = self.cg.ctype(t)
            self.undef_n += 1
            nm = 'vp_%s%d' % (k, self.undef_n)
            if k == 'zero':
                tt = self.rt(t)
                if tt.k in ('struct', 'array'):
                    self.decls.append('%s %s; memset(&%s, 0, sizeof(%s));' % (ct, nm, nm, nm))
                else:
                    self.decls.append('%s %s = 0;' % (ct, nm))
            else:
                self.decls.append('%s %s;' % (ct, nm))
            return nm
        if k == 'cgep':
            bt, pv, idx = x
            return self.gep_expr(bt, pv, idx)[0]
        if k == 'ccast':
            op, sv, dt = x
            return self.cast_expr(op, sv, dt, None)
        if k == 'cbin':
            op, a, b = x
            return self.bin_expr(op, a, b, (), None)
        if k == 'agg':
            raise Unsupported('aggregate constant as operand')
        raise Unsupported('value kind ' + k)

    def cg_ref_func(self, name):
        # a function whose address is taken is a possible (indirect) callee: keep it in the job's closure
        self.cg.called.setdefault(self.f.name, set()).add(name)

    def bits(self, t):
        t = self.rt(t)
        if t.k != 'int':
            raise Unsupported('expected int type, got ' + t.key())
        return t.a

    def sv(self, v):
        """signed view"""
        n = self.bits(v[2])
        if n == 1:
            return '(-(int)%s)' % self.val(v)
        return '((%s)%s)' % (sint(n), self.val(v))

    # -- GEP
    def gep_expr(self, bt, pv, idx):
        e = self.val(pv)
        t = bt
        first = idx[0]
        if first[0] == 'int' and first[1] == 0:
            base = '(*%s)' % e
        else:
            base = '(%s[%s])' % (e, self.idxval(first))
        path = ''
        for ix in idx[1:]:
            tt = self.rt(t)
            if tt.k == 'struct':
                if ix[0] != 'int':
                    raise Unsupported('non-constant struct index')
                path += '.f%d' % ix[1]
                t = tt.a[ix[1]]
            elif tt.k == 'array':
                path += '.a[%s]' % self.idxval(ix)
                t = tt.b
            else:
                raise Unsupported('gep into ' + tt.key())
        if len(idx) == 1:
            if first[0] == 'int' and first[1] == 0:
                return e, T('ptr', t)
            return '(%s + %s)' % (e, self.idxval(first)), T('ptr', t)
        # make sure struct/array types are registered
        self.cg.ctype(T('ptr', t)) if t.k != 'func' else None
        return '(&%s%s)' % (base, path), T('ptr', t)

    def idxval(self, ix):
        if ix[0] == 'int':
            return str(ix[1])
        n = self.bits(ix[2])
        return '((%s)%s)' % (sint(n), self.val(ix))

    # -- casts
    def cast_expr(self, op, v, dt, lab):
        st = self.rt(v[2])
        d = self.rt(dt)
        if st.k == 'fp80' or d.k == 'fp80':
            raise Unsupported('x86_fp80 conversion in a live block')
        cd = self.cg.ctype(dt)
        e = self.val(v)
        if op in ('zext', 'trunc'):
            return '((%s)%s)' % (cd, e)
        if op == 'sext':
            return '((%s)%s)' % (cd, self.sv(v))
        if op == 'bitcast':
            if st.k == 'ptr' and d.k == 'ptr':
                return '((%s)%s)' % (cd, e)
            raise Unsupported('non-pointer bitcast')
        if op == 'ptrtoint':
            return '((%s)%s)' % (cd, e)
        if op == 'inttoptr':
            return '((%s)%s)' % (cd, e)
        if op in ('sitofp',):
            return '((%s)%s)' % (cd, self.sv(v))
        if op in ('uitofp', 'fpext', 'fptrunc'):
            return '((%s)%s)' % (cd, e)
        if op in ('fptosi', 'fptoui'):
            n = d.a
            mant = 24 if st.k == 'float' else 53
            suf = 'f' if st.k == 'float' else ''
            if op == 'fptosi':
                hi = float(2 ** (n - 1)).hex() + suf
                if n - 1 < mant:
                    lo = '%s > %s' % (e, float(-(2 ** (n - 1)) - 1).hex() + suf)
                else:
                    lo = '%s >= %s' % (e, float(-(2 ** (n - 1))).hex() + suf)
                cond = '(%s && %s < %s)' % (lo, e, hi)
                conv = '((%s)(%s)%s)' % (cd, sint(n), e)
            else:
                hi = float(2 ** n).hex() + suf
                cond = '(%s > -1.0%s && %s < %s)' % (e, suf, e, hi)
                conv = '((%s)%s)' % (cd, e)
            if lab is not None:
                lab.append('__CPROVER_assert(%s, "UB.float-to-int-range: %s in %s");' % (cond, op, self.short))
            return conv
        raise Unsupported('cast ' + op)

    def sbits(self, v):
        """signed bits sufficient for operand v when it is an extension of a narrower value or a constant"""
        if v[0] == 'local':
            return self.ext.get(v[1])
        if v[0] == 'int':
            x = v[1]
            return (x.bit_length() if x >= 0 else (-x - 1).bit_length()) + 1
        return None

    # -- integer binary ops
    def bin_expr(self, op, a, b, flags, pre):
        n = self.bits(a[2])
        ct = self.cg.ctype(a[2])
        x, y = self.val(a), self.val(b)
        sx, sy = self.sv(a), self.sv(b)
        S = self.short
        if n == 1:
            if op in ('and', 'or', 'xor'):
                return '((_Bool)(%s %s %s))' % (x, {'and': '&', 'or': '|', 'xor': '^'}[op], y)
            if op == 'add' or op == 'sub':
                return '((_Bool)(%s ^ %s))' % (x, y)
            raise Unsupported('i1 ' + op)
        if op in ('add', 'sub', 'mul'):
            sym = {'add': '+', 'sub': '-', 'mul': '*'}[op]
            fn = {'add': 'plus', 'sub': 'minus', 'mul': 'mult'}[op]
            if pre is not None and 'nsw' in flags:
                ka, kb = self.sbits(a), self.sbits(b)
                if ka is not None and kb is not None and ((op == 'mul' and ka + kb <= n) or (op != 'mul' and max(ka, kb) + 1 <= n)):
                    # both operands are sign/zero extensions of narrow values (or small constants): by width arithmetic the
                    # exact result needs at most n bits, so this nsw flag can never fire -- discharged by the printer
                    pre.append('__CPROVER_assert(1, "UB.signed-overflow: %s nsw in %s discharged by operand widths (%d and %d signed bits into i%d)");'
                               % (op, S, ka, kb, n))
                    flags = tuple(f for f in flags if f != 'nsw')
            # a product with a literal constant is never routed through the (possibly abstracted) VP_MULn / VP_SMULOVFn: it is
            # cheap for SAT, and abstracting it would make 'x * 1 does not overflow' unprovable
            const_mul = op == 'mul' and (a[0] == 'int' or b[0] == 'int')
            if pre is not None:
                if 'nsw' in flags:
                    pre.append('__CPROVER_assert(!%s, "UB.signed-overflow: %s nsw in %s");'
                               % (ovf(sym, n, sx, sy, True, concrete=const_mul), op, S))
                if 'nuw' in flags:
                    pre.append('__CPROVER_assert(!%s, "UB.unsigned-wrap: %s nuw in %s");'
                               % (ovf(sym, n, '((%s)%s)' % (ct, x), '((%s)%s)' % (ct, y), False), op, S))
            w = wide_t(n)
            if op == 'mul' and n in (8, 16, 32, 64, 128) and not const_mul:
                return 'VP_MUL%d(%s, %s)' % (n, x, y)
            return '((%s)((%s)%s %s (%s)%s))' % (ct, w, x, sym, w, y)
        if op in ('and', 'or', 'xor'):
            sym = {'and': '&', 'or': '|', 'xor': '^'}[op]
            return '((%s)(%s %s %s))' % (ct, x, sym, y)
        if op in ('shl', 'lshr', 'ashr'):
            if pre is not None:
                pre.append('__CPROVER_assert(%s < %d, "UB.shift-count: %s in %s");' % (y, n, op, S))
            w = wide_t(n)
            if op == 'shl':
                if pre is not None and ('nsw' in flags or 'nuw' in flags):
                    raise Unsupported('shl with nsw/nuw')
                return '((%s)((%s)%s << %s))' % (ct, w, x, y)
            if op == 'lshr':
                if 'exact' in flags:
                    raise Unsupported('lshr exact')
                return '((%s)(%s >> %s))' % (ct, x, y)
            if 'exact' in flags and pre is not None:
                pre.append('__CPROVER_assert((%s)((%s >> %s) << %s) == %s, "UB.exact: ashr exact in %s");'
                           % (ct, sx, y, y, x, S))
            return '((%s)(%s >> %s))' % (ct, sx, y)
        if op in ('udiv', 'urem'):
            sym = '/' if op == 'udiv' else '%'
            if pre is not None:
                pre.append('__CPROVER_assert(%s != 0, "UB.div-zero: %s in %s");' % (y, op, S))
            if n in (8, 16, 32, 64, 128):
                return 'VP_%s%d(%s, %s)' % (op.upper(), n, x, y)
            return '((%s)(%s %s %s))' % (ct, x, sym, y)
        if op in ('sdiv', 'srem'):
            sym = '/' if op == 'sdiv' else '%'
            if pre is not None:
                pre.append('__CPROVER_assert(%s != 0, "UB.div-zero: %s in %s");' % (y, op, S))
                pre.append('__CPROVER_assert(!(%s == %s && %s == -1), "UB.div-overflow: %s in %s");'
                           % (sx, smin(n), sy, op, S))
                if 'exact' in flags:
                    pre.append('__CPROVER_assert(%s %% %s == 0, "UB.exact: sdiv exact in %s");' % (sx, sy, S))
            if self.cg.div_helpers:
                self.cg.used_helpers.add(('sdivrem', n))
                return '((%s)vp_%s%d(%s, %s))' % (ct, op, n, sx, sy)
            if n in (8, 16, 32, 64, 128):
                return 'VP_%s%d(%s, %s)' % (op.upper(), n, x, y)
            return '((%s)(%s %s %s))' % (ct, sx, sym, sy)
        raise Unsupported('binop ' + op)

    # -- whole function
    def gen(self):
        f = self.f
        cg = self.cg
        parse_body(self.mod, f)
        blocks = f.blocks
        labels = list(blocks)
        entry = labels[0]
        # params
        ps = []
        pro = []
        for k, (t, nm, at) in enumerate(f.params):
            pn = 'a%d' % k
            self.used.add(pn)
            if nm is not None:
                self.names[nm] = pn
                self.types[nm] = t
            ps.append('%s %s' % (cg.ctype(t), pn))
            if 'byval' in at:
                bt = at['byval']
                pro.append('%s vp_byval%d = *%s; %s = &vp_byval%d;' % (cg.ctype(bt), k, pn, pn, k))
        if f.vararg:
            raise Unsupported('vararg definition')
        # reachability over normal edges with constant-branch pruning
        succ = {}
        for l, ins in blocks.items():
            term = ins[-1]
            s = []
            if term.op == 'br':
                s = [term.a[0]]
            elif term.op == 'condbr':
                c = term.a[0]
                if c[0] == 'int':
                    s = [term.a[1] if c[1] else term.a[2]]
                else:
                    s = [term.a[1], term.a[2]]
            elif term.op == 'switch':
                s = [term.a[1]] + [x[1] for x in term.a[2]]
            elif term.op == 'call' and term.a[2] is not None:
                s = [term.a[2]]
            succ[l] = s
        live = set()
        st = [entry]
        while st:
            b = st.pop()
            if b in live:
                continue
            live.add(b)
            st.extend(succ[b])
        self.live = live
        self.succ = succ
        # declare results
        body = []
        allocas = []
        for l in labels:
            if l not in live:
                continue
            for ins in blocks[l]:
                if ins.op == 'alloca':
                    t, cnt = ins.a
                    if cnt is not None:
                        raise Unsupported('alloca with count')
                    nm = self.lname(ins.res)
                    mn = self.lname('mem.' + ins.res, 'm_')
                    self.types[ins.res] = T('ptr', t)
                    allocas.append('%s %s; %s* %s = &%s;' % (cg.ctype(t), mn, cg.ctype(t), nm, mn))
        label_c = {l: self.lname('label.' + l, 'L_') for l in labels if l in live}
        self.label_c = label_c
        phis = {}
        for l in labels:
            if l not in live:
                continue
            for ins in blocks[l]:
                if ins.op == 'phi':
                    phis.setdefault(l, []).append(ins)
        self.phis = phis
        out = []
        for l in labels:
            if l not in live:
                continue
            out.append('%s: ;' % label_c[l])
            for ins in blocks[l]:
                self.instr(ins, l, out)
        ret = cg.ctype(f.ret)
        hdr = '%s %s(%s)' % (ret, cg.cname[f.name], ', '.join(ps) or 'void')
        return hdr, pro + allocas + self.decls, out

    def declare(self, res, t):
        nm = self.lname(res)
        self.types[res] = t
        self.decls.append('%s %s;' % (self.cg.ctype(t), nm))
        return nm

    def edge(self, frm, to, out, indent='  '):
        """phi copies for edge frm->to then goto"""
        ph = self.phis.get(to, [])
        tmp = []
        for ins in ph:
            v = None
            for (val, l) in ins.a[0]:
                if l == frm:
                    v = val
            if v is None:
                raise Unsupported('phi without incoming for edge')
            if ins.res not in self.types:
                self.declare(ins.res, ins.ty)
                self.decls.append('%s %s_n;' % (self.cg.ctype(ins.ty), self.names[ins.res]))
            tmp.append((self.names[ins.res], self.val(v)))
        for n, e in tmp:
            out.append('%s%s_n = %s;' % (indent, n, e))
        for n, e in tmp:
            out.append('%s%s = %s_n;' % (indent, n, n))
        out.append('%sgoto %s;' % (indent, self.label_c[to]))

    def instr(self, ins, lab, out):
        cg = self.cg
        op = ins.op
        if op == 'alloca':
            return
        if op == 'phi':
            if ins.res not in self.types:
                self.declare(ins.res, ins.ty)
                self.decls.append('%s %s_n;' % (cg.ctype(ins.ty), self.names[ins.res]))
            return
        if op in BINOPS:
            pre = []
            e = self.bin_expr(op, ins.a[0], ins.a[1], ins.flags, pre)
            out.extend('  ' + x for x in pre)
            out.append('  %s = %s;' % (self.declare(ins.res, ins.ty), e))
            return
        if op in FBINOPS:
            sym = {'fadd': '+', 'fsub': '-', 'fmul': '*', 'fdiv': '/'}.get(op)
            if sym is None:
                raise Unsupported(op)
            self.rt(ins.ty).k in ('float', 'double') or self._bad('fp type ' + self.rt(ins.ty).key())
            fk = self.rt(ins.ty).k
            if op in ('fdiv', 'fmul'):
                out.append('  %s = VP_%s_%s(%s, %s);' % (self.declare(ins.res, ins.ty), op.upper(), 'F' if fk == 'float' else 'D', self.val(ins.a[0]), self.val(ins.a[1])))
                return
            out.append('  %s = %s %s %s;' % (self.declare(ins.res, ins.ty), self.val(ins.a[0]), sym, self.val(ins.a[1])))
            return
        if op == 'fneg':
            self.rt(ins.ty).k in ('float', 'double') or self._bad('fp type')
            out.append('  %s = -%s;' % (self.declare(ins.res, ins.ty), self.val(ins.a[0])))
            return
        if op == 'icmp':
            pred, a, b = ins.a
            ta = self.rt(a[2])
            if ta.k == 'ptr':
                sym = {'eq': '==', 'ne': '!=', 'ult': '<', 'ule': '<=', 'ugt': '>', 'uge': '>='}.get(pred)
                if sym is None:
                    raise Unsupported('pointer icmp ' + pred)
                e = '(%s %s %s)' % (self.val(a), sym, self.val(b))
            else:
                sym = {'eq': '==', 'ne': '!=', 'ult': '<', 'ule': '<=', 'ugt': '>', 'uge': '>=',
                       'slt': '<', 'sle': '<=', 'sgt': '>', 'sge': '>='}[pred]
                if pred[0] == 's':
                    e = '(%s %s %s)' % (self.sv(a), sym, self.sv(b))
                else:
                    e = '(%s %s %s)' % (self.val(a), sym, self.val(b))
            out.append('  %s = %s;' % (self.declare(ins.res, I(1)), e))
            return
        if op == 'fcmp':
            pred, a, b = ins.a
            self.rt(a[2]).k in ('float', 'double') or self._bad('fp type')
            x, y = self.val(a), self.val(b)
            o = {'oeq': '==', 'ogt': '>', 'oge': '>=', 'olt': '<', 'ole': '<='}
            u = {'ueq': '(%s < %s || %s > %s)', 'ugt': '<=', 'uge': '<', 'ult': '>=', 'ule': '>'}
            if pred in o:
                e = '(%s %s %s)' % (x, o[pred], y)
            elif pred == 'one':
                e = '(%s < %s || %s > %s)' % (x, y, x, y)
            elif pred == 'une':
                e = '(%s != %s)' % (x, y)
            elif pred == 'ueq':
                e = '(!(%s < %s || %s > %s))' % (x, y, x, y)
            elif pred in u:
                e = '(!(%s %s %s))' % (x, u[pred], y)
            elif pred == 'ord':
                e = '(%s == %s && %s == %s)' % (x, x, y, y)
            elif pred == 'uno':
                e = '(%s != %s || %s != %s)' % (x, x, y, y)
            elif pred == 'true':
                e = '1'
            elif pred == 'false':
                e = '0'
            else:
                raise Unsupported('fcmp ' + pred)
            out.append('  %s = %s;' % (self.declare(ins.res, I(1)), e))
            return
        if op == 'cast':
            cop, v, dt = ins.a
            if cop in ('sext', 'zext') and self.rt(v[2]).k == 'int' and ins.res is not None:
                k = self.rt(v[2]).a
                self.ext[ins.res] = k if cop == 'sext' else k + 1     # signed bits needed
            pre = []
            e = self.cast_expr(cop, v, dt, pre)
            out.extend('  ' + x for x in pre)
            out.append('  %s = %s;' % (self.declare(ins.res, dt), e))
            return
        if op == 'load':
            pv = ins.a[0]
            if self.rt(ins.ty).k == 'fp80':
                raise Unsupported('x86_fp80 load in a live block')
            out.append('  %s = *%s;' % (self.declare(ins.res, ins.ty), self.val(pv)))
            return
        if op == 'store':
            v, pv = ins.a
            if v[2] is not None and self.rt(v[2]).k == 'fp80':
                raise Unsupported('x86_fp80 store in a live block')
            out.append('  *%s = %s;' % (self.val(pv), self.val(v)))
            return
        if op == 'gep':
            bt, pv, idx = ins.a
            e, t = self.gep_expr(bt, pv, idx)
            out.append('  %s = %s;' % (self.declare(ins.res, t), e))
            return
        if op == 'select':
            c, a, b = ins.a
            out.append('  %s = %s ? %s : %s;' % (self.declare(ins.res, ins.ty), self.val(c), self.val(a), self.val(b)))
            return
        if op == 'extractvalue':
            a, idx = ins.a
            t = a[2]
            path = ''
            for i in idx:
                tt = self.rt(t)
                if tt.k == 'struct':
                    path += '.f%d' % i
                    t = tt.a[i]
                elif tt.k == 'array':
                    path += '.a[%d]' % i
                    t = tt.b
                else:
                    raise Unsupported('extractvalue on ' + tt.key())
            out.append('  %s = %s%s;' % (self.declare(ins.res, t), self.val(a), path))
            return
        if op == 'insertvalue':
            a, b, idx = ins.a
            t = a[2]
            path = ''
            for i in idx:
                tt = self.rt(t)
                if tt.k == 'struct':
                    path += '.f%d' % i
                    t = tt.a[i]
                elif tt.k == 'array':
                    path += '.a[%d]' % i
                    t = tt.b
                else:
                    raise Unsupported('insertvalue on ' + tt.key())
            nm = self.declare(ins.res, a[2])
            out.append('  %s = %s; %s%s = %s;' % (nm, self.val(a), nm, path, self.val(b)))
            return
        if op == 'freeze':
            out.append('  %s = %s;' % (self.declare(ins.res, ins.ty), self.val(ins.a[0])))
            return
        if op == 'call':
            self.call(ins, lab, out)
            return
        if op == 'br':
            self.edge(lab, ins.a[0], out)
            return
        if op == 'condbr':
            c, a, b = ins.a
            if c[0] == 'int':
                self.edge(lab, a if c[1] else b, out)
                return
            out.append('  if (%s) {' % self.val(c))
            self.edge(lab, a, out, '    ')
            out.append('  } else {')
            self.edge(lab, b, out, '    ')
            out.append('  }')
            return
        if op == 'switch':
            v, d, cases = ins.a
            for cv, l in cases:
                out.append('  if (%s == %s) {' % (self.val(v), self.val(cv)))
                self.edge(lab, l, out, '    ')
                out.append('  }')
            self.edge(lab, d, out)
            return
        if op == 'ret':
            if ins.a[0] is None:
                out.append('  return;')
            else:
                out.append('  return %s;' % self.val(ins.a[0]))
            return
        if op == 'unreachable':
            out.append('  __CPROVER_assert(0, "UB.unreachable: reached in %s"); __CPROVER_assume(0);' % self.short)
            return
        if op in ('resume', 'landingpad'):
            raise Unsupported('exception handling on a normal path')
        raise Unsupported('emit ' + op)

    def _bad(self, msg):
        raise Unsupported(msg)

    def call(self, ins, lab, out):
        cg = self.cg
        callee, args, dest, fnty = ins.a
        rt = ins.ty
        S = self.short
        res = None
        if callee[0] == 'global' and callee[1].startswith('llvm.'):
            self.intrinsic(ins, out)
        else:
            argv = [self.val(a) for a, _ in args]
            if callee[0] == 'global':
                name = callee[1]
                if name not in self.mod.funcs:
                    raise Unsupported('call to unknown @' + name)
                cn = cg.cname[name]
                cg.called.setdefault(self.f.name, set()).add(name)
                fdef = self.mod.funcs[name]
                if fdef.vararg:
                    raise Unsupported('call to vararg function ' + name)
                # cast pointer args to the declared parameter types (calls through bitcast etc.)
                fe = cn
            elif callee[0] == 'local':
                fe = self.val(callee)
                cg.indirect.add(self.f.name)
            else:
                raise Unsupported('callee kind ' + callee[0])
            call = '%s(%s)' % (fe, ', '.join(argv))
            if self.rt(rt).k == 'void':
                out.append('  %s;' % call)
            elif ins.res is None:
                out.append('  (void)%s;' % call)
            else:
                out.append('  %s = %s;' % (self.declare(ins.res, rt), call))
        if dest is not None:
            self.edge(lab, dest, out)

    def intrinsic(self, ins, out):
        cg = self.cg
        callee, args, dest, fnty = ins.a
        name = callee[1]
        a = [x for x, _ in args]
        S = self.short
        base = name.split('.')[1]

        def res(t=None):
            return self.declare(ins.res, t or ins.ty)
        if base in ('lifetime', 'dbg', 'assume', 'experimental', 'donothing', 'var'):
            return
        if base in ('memcpy', 'memmove'):
            out.append('  %s(%s, %s, %s);' % (base, self.val(a[0]), self.val(a[1]), self.val(a[2])))
            return
        if base == 'memset':
            out.append('  memset(%s, (int)%s, %s);' % (self.val(a[0]), self.val(a[1]), self.val(a[2])))
            return
        if base in ('ctlz', 'cttz'):
            n = self.bits(a[0][2])
            x = self.val(a[0])
            zu = a[1]
            if zu[0] == 'int' and zu[1] == 1:
                out.append('  __CPROVER_assert(%s != 0, "UB.clz-of-zero: %s(x, true) in %s");' % (x, base, S))
            cg.used_helpers.add((base, n))
            out.append('  %s = vp_%s%d(%s);' % (res(), base, n, x))
            return
        if base == 'ctpop':
            n = self.bits(a[0][2])
            cg.used_helpers.add((base, n))
            out.append('  %s = vp_ctpop%d(%s);' % (res(), n, self.val(a[0])))
            return
        if base == 'abs':
            n = self.bits(a[0][2])
            if a[1][0] == 'int' and a[1][1] == 1:
                out.append('  __CPROVER_assert(%s != %s, "UB.signed-overflow: abs(INT_MIN) in %s");'
                           % (self.sv(a[0]), smin(n), S))
            sx = self.sv(a[0])
            ct = cg.ctype(a[0][2])
            out.append('  %s = (%s < 0) ? (%s)(0 - %s) : %s;' % (res(), sx, ct, self.val(a[0]), self.val(a[0])))
            return
        if base in ('smax', 'smin', 'umax', 'umin'):
            x, y = (self.sv(a[0]), self.sv(a[1])) if base[0] == 's' else (self.val(a[0]), self.val(a[1]))
            sym = '>' if base.endswith('max') else '<'
            out.append('  %s = (%s %s %s) ? %s : %s;' % (res(), x, sym, y, self.val(a[0]), self.val(a[1])))
            return
        if base in ('sadd', 'ssub', 'smul', 'uadd', 'usub', 'umul'):
            n = self.bits(a[0][2])
            fn = {'add': 'plus', 'sub': 'minus', 'mul': 'mult'}[base[1:]]
            sym = {'add': '+', 'sub': '-', 'mul': '*'}[base[1:]]
            ct = cg.ctype(a[0][2])
            w = wide_t(n)
            if base[0] == 's':
                ov = ovf(sym, n, self.sv(a[0]), self.sv(a[1]), True)
            else:
                ov = ovf(sym, n, '((%s)%s)' % (ct, self.val(a[0])), '((%s)%s)' % (ct, self.val(a[1])), False)
            nm = res()
            if sym == '*' and n in (8, 16, 32, 64, 128):
                out.append('  %s.f0 = VP_MUL%d(%s, %s); %s.f1 = %s;' % (nm, n, self.val(a[0]), self.val(a[1]), nm, ov))
            else:
                out.append('  %s.f0 = (%s)((%s)%s %s (%s)%s); %s.f1 = %s;'
                           % (nm, ct, w, self.val(a[0]), sym, w, self.val(a[1]), nm, ov))
            return
        if base in ('fabs', 'floor', 'ceil', 'trunc', 'sqrt', 'round', 'rint', 'nearbyint'):
            t = self.rt(ins.ty)
            if t.k not in ('float', 'double'):
                raise Unsupported('fp intrinsic on ' + t.key())
            fn = '__builtin_' + base + ('f' if t.k == 'float' else '')
            out.append('  %s = %s(%s);' % (res(), fn, self.val(a[0])))
            return
        if base == 'fmuladd':
            out.append('  %s = %s * %s + %s;' % (res(), self.val(a[0]), self.val(a[1]), self.val(a[2])))
            return
        if base == 'is':   # llvm.is.constant
            out.append('  %s = 0;' % res())
            return
        if base == 'expect':
            out.append('  %s = %s;' % (res(), self.val(a[0])))
            return
        if base == 'trap':
            out.append('  __CPROVER_assert(0, "UB.trap: llvm.trap in %s"); __CPROVER_assume(0);' % S)
            return
        if base in ('fshl', 'fshr'):
            n = self.bits(a[0][2])
            ct = cg.ctype(a[0][2])
            x, y, z = self.val(a[0]), self.val(a[1]), self.val(a[2])
            w = 'vp_u128' if n == 128 else 'uint64_t'
            zz = '((unsigned)(%s %% %d))' % (z, n)
            if base == 'fshl':
                out.append('  %s = %s == 0 ? %s : (%s)(((%s)%s << %s) | ((%s)%s >> (%d - %s)));'
                           % (res(), zz, x, ct, w, x, zz, w, y, n, zz))
            else:
                out.append('  %s = %s == 0 ? %s : (%s)(((%s)%s << (%d - %s)) | ((%s)%s >> %s));'
                           % (res(), zz, y, ct, w, x, n, zz, w, y, zz))
            return
        raise Unsupported('intrinsic ' + name)


def ovf(sym, n, x, y, signed, concrete=False):
    """overflow predicate by exact arithmetic in a wider vector (CBMC's __CPROVER_overflow_* builtins promote
    non-standard operand widths such as the i33 clang uses for mixed-sign __builtin_*_overflow, and then miss the overflow)"""
    if n in (32, 64, 128):
        # operands of these widths are not promoted by C, so CBMC's dedicated overflow predicates are exact (and much
        # cheaper for multiplication than a 2n+2-bit product)
        fn = {'+': 'plus', '-': 'minus', '*': 'mult'}[sym]
        if sym == '*' and signed and not concrete:
            return 'VP_SMULOVF%d(%s, %s)' % (n, x, y)     # the shared (possibly abstracted) signed-product-overflow predicate
        return '__CPROVER_overflow_%s(%s, %s)' % (fn, x, y)
    k = (2 * n + 2) if sym == '*' else n + 2
    wk = '__CPROVER_bitvector[%d]' % k
    tn = sint(n) if signed else ('uint%d_t' % n if n in (8, 16, 32, 64) else 'vp_u%d' % n)
    r = '(((%s)%s) %s ((%s)%s))' % (wk, x, sym, wk, y)
    return '(%s != (%s)(%s)%s)' % (r, wk, tn, r)


def wide_t(n):
    if n <= 32:
        return 'uint32_t'
    if n <= 64 and n in (64,):
        return 'uint64_t'
    return 'vp_u%d' % n


def sint(n):
    if n in (8, 16, 32, 64):
        return 'int%d_t' % n
    return 'vp_s%d' % n


def smin(n):
    if n == 128:
        return '((vp_s128)(((vp_u128)1) << 127))'
    if n == 64:
        return '(-9223372036854775807LL - 1)'
    if n in (8, 16, 32):
        return '((%s)(%d))' % (sint(n), -(1 << (n - 1)))
    return '((vp_s%d)(((vp_u%d)1) << %d))' % (n, n, n - 1)


LIBC_NAMES = {'memcmp', 'memcpy', 'memmove', 'memset', 'strlen', 'strcmp', 'snprintf', 'sprintf', 'printf', 'fputs', 'fputc', 'puts', 'abort',
              'malloc', 'free', 'calloc', 'realloc', 'exit'}

PRELUDE = r'''
#include <stdint.h>
#include <stddef.h>
#include <string.h>
typedef unsigned __int128 vp_u128;
typedef __int128 vp_s128;
struct vp_fp80 { uint8_t b[16]; };
/* every IR 'mul' goes through VP_MULn: the machine product modulo 2^n, or -- when a job abstracts multiplication
   (-DVP_ABSTRACT_MUL) -- one uninterpreted function per width shared by the extracted code and the contract text, so
   that relational obligations follow by congruence instead of a multiplier-equivalence SAT problem */
#ifdef VP_ABSTRACT_DIV
uint8_t __CPROVER_uninterpreted_udiv8(uint8_t, uint8_t);
#define VP_UDIV8(a, b) __CPROVER_uninterpreted_udiv8((uint8_t)(a), (uint8_t)(b))
uint8_t __CPROVER_uninterpreted_urem8(uint8_t, uint8_t);
#define VP_UREM8(a, b) __CPROVER_uninterpreted_urem8((uint8_t)(a), (uint8_t)(b))
uint8_t __CPROVER_uninterpreted_sdiv8(uint8_t, uint8_t);
#define VP_SDIV8(a, b) __CPROVER_uninterpreted_sdiv8((uint8_t)(a), (uint8_t)(b))
uint8_t __CPROVER_uninterpreted_srem8(uint8_t, uint8_t);
#define VP_SREM8(a, b) __CPROVER_uninterpreted_srem8((uint8_t)(a), (uint8_t)(b))
uint16_t __CPROVER_uninterpreted_udiv16(uint16_t, uint16_t);
#define VP_UDIV16(a, b) __CPROVER_uninterpreted_udiv16((uint16_t)(a), (uint16_t)(b))
uint16_t __CPROVER_uninterpreted_urem16(uint16_t, uint16_t);
#define VP_UREM16(a, b) __CPROVER_uninterpreted_urem16((uint16_t)(a), (uint16_t)(b))
uint16_t __CPROVER_uninterpreted_sdiv16(uint16_t, uint16_t);
#define VP_SDIV16(a, b) __CPROVER_uninterpreted_sdiv16((uint16_t)(a), (uint16_t)(b))
uint16_t __CPROVER_uninterpreted_srem16(uint16_t, uint16_t);
#define VP_SREM16(a, b) __CPROVER_uninterpreted_srem16((uint16_t)(a), (uint16_t)(b))
uint32_t __CPROVER_uninterpreted_udiv32(uint32_t, uint32_t);
#define VP_UDIV32(a, b) __CPROVER_uninterpreted_udiv32((uint32_t)(a), (uint32_t)(b))
uint32_t __CPROVER_uninterpreted_urem32(uint32_t, uint32_t);
#define VP_UREM32(a, b) __CPROVER_uninterpreted_urem32((uint32_t)(a), (uint32_t)(b))
uint32_t __CPROVER_uninterpreted_sdiv32(uint32_t, uint32_t);
#define VP_SDIV32(a, b) __CPROVER_uninterpreted_sdiv32((uint32_t)(a), (uint32_t)(b))
uint32_t __CPROVER_uninterpreted_srem32(uint32_t, uint32_t);
#define VP_SREM32(a, b) __CPROVER_uninterpreted_srem32((uint32_t)(a), (uint32_t)(b))
uint64_t __CPROVER_uninterpreted_udiv64(uint64_t, uint64_t);
#define VP_UDIV64(a, b) __CPROVER_uninterpreted_udiv64((uint64_t)(a), (uint64_t)(b))
uint64_t __CPROVER_uninterpreted_urem64(uint64_t, uint64_t);
#define VP_UREM64(a, b) __CPROVER_uninterpreted_urem64((uint64_t)(a), (uint64_t)(b))
uint64_t __CPROVER_uninterpreted_sdiv64(uint64_t, uint64_t);
#define VP_SDIV64(a, b) __CPROVER_uninterpreted_sdiv64((uint64_t)(a), (uint64_t)(b))
uint64_t __CPROVER_uninterpreted_srem64(uint64_t, uint64_t);
#define VP_SREM64(a, b) __CPROVER_uninterpreted_srem64((uint64_t)(a), (uint64_t)(b))
vp_u128 __CPROVER_uninterpreted_udiv128(vp_u128, vp_u128);
#define VP_UDIV128(a, b) __CPROVER_uninterpreted_udiv128((vp_u128)(a), (vp_u128)(b))
vp_u128 __CPROVER_uninterpreted_urem128(vp_u128, vp_u128);
#define VP_UREM128(a, b) __CPROVER_uninterpreted_urem128((vp_u128)(a), (vp_u128)(b))
vp_u128 __CPROVER_uninterpreted_sdiv128(vp_u128, vp_u128);
#define VP_SDIV128(a, b) __CPROVER_uninterpreted_sdiv128((vp_u128)(a), (vp_u128)(b))
vp_u128 __CPROVER_uninterpreted_srem128(vp_u128, vp_u128);
#define VP_SREM128(a, b) __CPROVER_uninterpreted_srem128((vp_u128)(a), (vp_u128)(b))
#else
#define VP_UDIV8(a, b) ((uint8_t)((uint8_t)(a) / (uint8_t)(b)))
#define VP_UREM8(a, b) ((uint8_t)((uint8_t)(a) % (uint8_t)(b)))
#define VP_SDIV8(a, b) ((uint8_t)((int8_t)(a) / (int8_t)(b)))
#define VP_SREM8(a, b) ((uint8_t)((int8_t)(a) % (int8_t)(b)))
#define VP_UDIV16(a, b) ((uint16_t)((uint16_t)(a) / (uint16_t)(b)))
#define VP_UREM16(a, b) ((uint16_t)((uint16_t)(a) % (uint16_t)(b)))
#define VP_SDIV16(a, b) ((uint16_t)((int16_t)(a) / (int16_t)(b)))
#define VP_SREM16(a, b) ((uint16_t)((int16_t)(a) % (int16_t)(b)))
#define VP_UDIV32(a, b) ((uint32_t)((uint32_t)(a) / (uint32_t)(b)))
#define VP_UREM32(a, b) ((uint32_t)((uint32_t)(a) % (uint32_t)(b)))
#define VP_SDIV32(a, b) ((uint32_t)((int32_t)(a) / (int32_t)(b)))
#define VP_SREM32(a, b) ((uint32_t)((int32_t)(a) % (int32_t)(b)))
#define VP_UDIV64(a, b) ((uint64_t)((uint64_t)(a) / (uint64_t)(b)))
#define VP_UREM64(a, b) ((uint64_t)((uint64_t)(a) % (uint64_t)(b)))
#define VP_SDIV64(a, b) ((uint64_t)((int64_t)(a) / (int64_t)(b)))
#define VP_SREM64(a, b) ((uint64_t)((int64_t)(a) % (int64_t)(b)))
#define VP_UDIV128(a, b) ((vp_u128)((vp_u128)(a) / (vp_u128)(b)))
#define VP_UREM128(a, b) ((vp_u128)((vp_u128)(a) % (vp_u128)(b)))
#define VP_SDIV128(a, b) ((vp_u128)((vp_s128)(a) / (vp_s128)(b)))
#define VP_SREM128(a, b) ((vp_u128)((vp_s128)(a) % (vp_s128)(b)))
#endif
#ifdef VP_ABSTRACT_FP
float __CPROVER_uninterpreted_fdivf(float, float);
double __CPROVER_uninterpreted_fdivd(double, double);
float __CPROVER_uninterpreted_fmulf(float, float);
double __CPROVER_uninterpreted_fmuld(double, double);
#define VP_FDIV_F(a, b) __CPROVER_uninterpreted_fdivf((float)(a), (float)(b))
#define VP_FDIV_D(a, b) __CPROVER_uninterpreted_fdivd((double)(a), (double)(b))
#define VP_FMUL_F(a, b) __CPROVER_uninterpreted_fmulf((float)(a), (float)(b))
#define VP_FMUL_D(a, b) __CPROVER_uninterpreted_fmuld((double)(a), (double)(b))
#else
#define VP_FDIV_F(a, b) ((float)(a) / (float)(b))
#define VP_FDIV_D(a, b) ((double)(a) / (double)(b))
#define VP_FMUL_F(a, b) ((float)(a) * (float)(b))
#define VP_FMUL_D(a, b) ((double)(a) * (double)(b))
#endif
#ifdef VP_ABSTRACT_MUL
uint8_t __CPROVER_uninterpreted_mul8(uint8_t, uint8_t);
uint16_t __CPROVER_uninterpreted_mul16(uint16_t, uint16_t);
uint32_t __CPROVER_uninterpreted_mul32(uint32_t, uint32_t);
uint64_t __CPROVER_uninterpreted_mul64(uint64_t, uint64_t);
vp_u128 __CPROVER_uninterpreted_mul128(vp_u128, vp_u128);
/* uninterpreted except for the unit: x*1 == x, 1*x == x (true of the machine product; keeps scaling by 2^0 transparent) */
#define VP_MUL8(a, b) (((uint8_t)(b)) == 1 ? ((uint8_t)(a)) : (((uint8_t)(a)) == 1 ? ((uint8_t)(b)) : __CPROVER_uninterpreted_mul8((uint8_t)(a), (uint8_t)(b))))
/* uninterpreted except for the unit: x*1 == x, 1*x == x (true of the machine product; keeps scaling by 2^0 transparent) */
#define VP_MUL16(a, b) (((uint16_t)(b)) == 1 ? ((uint16_t)(a)) : (((uint16_t)(a)) == 1 ? ((uint16_t)(b)) : __CPROVER_uninterpreted_mul16((uint16_t)(a), (uint16_t)(b))))
/* uninterpreted except for the unit: x*1 == x, 1*x == x (true of the machine product; keeps scaling by 2^0 transparent) */
#define VP_MUL32(a, b) (((uint32_t)(b)) == 1 ? ((uint32_t)(a)) : (((uint32_t)(a)) == 1 ? ((uint32_t)(b)) : __CPROVER_uninterpreted_mul32((uint32_t)(a), (uint32_t)(b))))
/* uninterpreted except for the unit: x*1 == x, 1*x == x (true of the machine product; keeps scaling by 2^0 transparent) */
#define VP_MUL64(a, b) (((uint64_t)(b)) == 1 ? ((uint64_t)(a)) : (((uint64_t)(a)) == 1 ? ((uint64_t)(b)) : __CPROVER_uninterpreted_mul64((uint64_t)(a), (uint64_t)(b))))
/* uninterpreted except for the unit: x*1 == x, 1*x == x (true of the machine product; keeps scaling by 2^0 transparent) */
#define VP_MUL128(a, b) (((vp_u128)(b)) == 1 ? ((vp_u128)(a)) : (((vp_u128)(a)) == 1 ? ((vp_u128)(b)) : __CPROVER_uninterpreted_mul128((vp_u128)(a), (vp_u128)(b))))
_Bool __CPROVER_uninterpreted_smulovf32(uint32_t, uint32_t);
_Bool __CPROVER_uninterpreted_smulovf64(uint64_t, uint64_t);
_Bool __CPROVER_uninterpreted_smulovf128(vp_u128, vp_u128);
#define VP_SMULOVF32(a, b) ((((uint32_t)(a)) == 1 || ((uint32_t)(b)) == 1) ? (_Bool)0 : __CPROVER_uninterpreted_smulovf32((uint32_t)(a), (uint32_t)(b)))
#define VP_SMULOVF64(a, b) ((((uint64_t)(a)) == 1 || ((uint64_t)(b)) == 1) ? (_Bool)0 : __CPROVER_uninterpreted_smulovf64((uint64_t)(a), (uint64_t)(b)))
#define VP_SMULOVF128(a, b) ((((vp_u128)(a)) == 1 || ((vp_u128)(b)) == 1) ? (_Bool)0 : __CPROVER_uninterpreted_smulovf128((vp_u128)(a), (vp_u128)(b)))
#else
#define VP_SMULOVF32(a, b) __CPROVER_overflow_mult((int32_t)(a), (int32_t)(b))
#define VP_SMULOVF64(a, b) __CPROVER_overflow_mult((int64_t)(a), (int64_t)(b))
#define VP_SMULOVF128(a, b) __CPROVER_overflow_mult((vp_s128)(a), (vp_s128)(b))
#define VP_MUL8(a, b) ((uint8_t)((uint32_t)(a) * (uint32_t)(b)))
#define VP_MUL16(a, b) ((uint16_t)((uint32_t)(a) * (uint32_t)(b)))
#define VP_MUL32(a, b) ((uint32_t)((uint32_t)(a) * (uint32_t)(b)))
#define VP_MUL64(a, b) ((uint64_t)((uint64_t)(a) * (uint64_t)(b)))
#define VP_MUL128(a, b) ((vp_u128)((vp_u128)(a) * (vp_u128)(b)))
#endif
'''


def helper_text(used, div_contracts=False):
    out = []
    for h in sorted(used, key=str):
        kind, n = h
        if kind == 'ctlz':
            if n == 128:
                out.append('static vp_u128 vp_ctlz128(vp_u128 x){ uint64_t hi=(uint64_t)(x>>64), lo=(uint64_t)x; '
                           'return hi ? (vp_u128)__builtin_clzll(hi) : (lo ? (vp_u128)(64+__builtin_clzll(lo)) : (vp_u128)128); }')
            elif n == 64:
                out.append('static uint64_t vp_ctlz64(uint64_t x){ return x ? (uint64_t)__builtin_clzll(x) : 64; }')
            else:
                out.append('static uint%d_t vp_ctlz%d(uint%d_t x){ return x ? (uint%d_t)(__builtin_clz((uint32_t)x) - %d) : %d; }'
                           % (n, n, n, n, 32 - n, n))
        elif kind == 'cttz':
            if n == 128:
                out.append('static vp_u128 vp_cttz128(vp_u128 x){ uint64_t hi=(uint64_t)(x>>64), lo=(uint64_t)x; '
                           'return lo ? (vp_u128)__builtin_ctzll(lo) : (hi ? (vp_u128)(64+__builtin_ctzll(hi)) : (vp_u128)128); }')
            elif n == 64:
                out.append('static uint64_t vp_cttz64(uint64_t x){ return x ? (uint64_t)__builtin_ctzll(x) : 64; }')
            else:
                out.append('static uint%d_t vp_cttz%d(uint%d_t x){ return x ? (uint%d_t)__builtin_ctz((uint32_t)x) : %d; }'
                           % (n, n, n, n, n))
        elif kind == 'ctpop':
            if n == 128:
                out.append('static vp_u128 vp_ctpop128(vp_u128 x){ return (vp_u128)(__builtin_popcountll((uint64_t)(x>>64)) + __builtin_popcountll((uint64_t)x)); }')
            elif n == 64:
                out.append('static uint64_t vp_ctpop64(uint64_t x){ return (uint64_t)__builtin_popcountll(x); }')
            else:
                out.append('static uint%d_t vp_ctpop%d(uint%d_t x){ return (uint%d_t)__builtin_popcount((uint32_t)x); }' % (n, n, n, n))
        elif kind == 'sdivrem':
            s = sint(n)
            out.append('%s vp_sdiv%d(%s a, %s b);' % (s, n, s, s))
            out.append('%s vp_srem%d(%s a, %s b);' % (s, n, s, s))
    return '\n'.join(out) + '\n'


# --------------------------------------------------------------------------
# whole-module translation

class Translation:
    def __init__(self):
        self.c_text = ''
        self.funcs = {}        # ir name -> dict(cname, demangled, header, ok, reason, calls, obligations)
        self.refused = {}


def natural_loops(fg):
    return []


def translate(ll_text, stubs=(), div_helpers=False, loop_contracts=None, only=None):
    """stubs: list of (compiled regex on demangled name, C body template using {ret} {args})
    loop_contracts: dict cname-regex -> {header-label: contract text}
    returns Translation"""
    mod = Module.parse(ll_text)
    mod.demangle()
    cg = CGen(mod)
    cg.div_helpers = div_helpers
    cg.called = {}
    cg.indirect = set()
    tr = Translation()
    bodies = []
    protos = []
    stubbed = {}
    for name, f in mod.funcs.items():
        if name.startswith('llvm.'):
            continue
        d = mod.demangled.get(name, name)
        info = {'cname': cg.cname[name], 'demangled': d, 'mangled': name, 'defined': f.defined,
                'ok': False, 'reason': None, 'stub': None, 'nparams': len(f.params)}
        tr.funcs[name] = info
        stub = None
        for rx, kind in stubs:
            if rx.search(d):
                stub = kind
                break
        try:
            ret = cg.ctype(f.ret)
            ps = ', '.join('%s a%d' % (cg.ctype(t), k) for k, (t, nm, at) in enumerate(f.params)) or 'void'
            if f.vararg:
                ps += ', ...'
            hdr = '%s %s(%s)' % (ret, cg.cname[name], ps)
            info['header'] = hdr
            info['ret_t'] = f.ret
            info['param_t'] = [t for t, _, _ in f.params]
        except Unsupported as e:
            info['reason'] = 'signature: %s' % e
            continue
        if not f.defined and name in LIBC_NAMES:
            info['reason'] = 'libc function (declared by <string.h>/<stdio.h>, not re-declared)'
            continue
        protos.append((name, hdr))
        if stub is not None:
            info['stub'] = stub
            info['ok'] = True
            continue
        if not f.defined:
            info['reason'] = 'external (no body)'
            continue
        if only is not None and name not in only:
            info['reason'] = 'not selected'
            continue
        try:
            fg = FuncGen(cg, f)
            h, decls, out = fg.gen()
            lc = None
            text = '%s\n/*CONTRACT:%s*/\n{\n  %s\n%s\n}\n' % (h, cg.cname[name], '\n  '.join(decls), '\n'.join(out))
            bodies.append((name, text))
            info['ok'] = True
            info['obligations'] = len(re.findall(r'__CPROVER_assert\(', text))
        except Unsupported as e:
            info['reason'] = str(e)
    for name, info in tr.funcs.items():
        info['calls'] = sorted(cg.called.get(name, ()))
        info['indirect'] = name in cg.indirect
    # globals
    gl = []
    for g, (ty, init, const) in mod.globals.items():
        try:
            ct = cg.ctype(ty)
            gi = ginit(cg, mod, ty, init)
            is_const = const and init is not None and 'not translated' not in gi
            gl.append('%s%s %s%s;' % ('const ' if is_const else '', ct, cg.gname[g], gi))
        except Unsupported as e:
            gl.append('/* global %s refused: %s */' % (san(g), e))
    types = cg.emit_types()
    odd = ''.join('typedef unsigned __CPROVER_bitvector[%d] vp_u%d; typedef __CPROVER_bitvector[%d] vp_s%d;\n' % (n, n, n, n) for n in sorted(cg.odd_widths))
    tr.head = '\n'.join([PRELUDE + odd, types, helper_text(cg.used_helpers), '\n'.join(h + ';' for _, h in protos)])
    tr.globals_text = '\n'.join(gl)
    tr.bodies = dict(bodies)
    tr.c_text = '\n'.join([tr.head, '/*STUBS*/', tr.globals_text] + [t for _, t in bodies])
    tr.mod = mod
    tr.cg = cg
    return tr


def ginit(cg, mod, ty, init):
    if init is None:
        return ''
    try:
        return ' = ' + cinit(cg, mod, init)
    except Unsupported:
        return ' /* initializer not translated */'


def cinit(cg, mod, v):
    k, x, t = v
    tt = mod.resolve(t)
    if k == 'int':
        return cg.intlit(x, tt.a)
    if k == 'fp':
        return cg.fplit(x, tt)
    if k == 'bytes':
        return '{{%s}}' % ','.join(str(b) for b in x)
    if k == 'zero':
        return '{0}'
    if k == 'null':
        return '0'
    if k == 'undef':
        return '{0}' if tt.k in ('struct', 'array') else '0'
    if k == 'agg':
        if tt.k == 'array':
            return '{{%s}}' % ','.join(cinit(cg, mod, e) for e in x)
        return '{%s}' % ','.join(cinit(cg, mod, e) for e in x)
    if k == 'global':
        if x in mod.funcs:
            return cg.cname[x]
        return '&' + cg.gname[x]
    if k == 'cgep':
        bt, pv, idx = x
        if pv[0] == 'global' and all(i[0] == 'int' for i in idx):
            e = cg.gname[pv[1]]
            t2 = bt
            path = ''
            for ix in idx[1:]:
                t3 = mod.resolve(t2)
                if t3.k == 'struct':
                    path += '.f%d' % ix[1]
                    t2 = t3.a[ix[1]]
                else:
                    path += '.a[%d]' % ix[1]
                    t2 = t3.b
            return '&%s%s' % (e, path) if idx[0][1] == 0 else '&(&%s)[%d]%s' % (e, idx[0][1], path)
    if k == 'ccast':
        op, sv, dt = x
        return '(%s)%s' % (cg.ctype(dt), cinit(cg, mod, sv))
    raise Unsupported('initializer ' + k)


if __name__ == '__main__':
    import sys
    tr = translate(open(sys.argv[1]).read())
    sys.stdout.write(tr.c_text)
    for n, i in tr.funcs.items():
        if not i['ok']:
            sys.stderr.write('REFUSED %s: %s\n' % (i['demangled'][:100], i['reason']))

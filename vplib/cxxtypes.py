"""C++ built-in arithmetic types on x86-64/LP64 as clang spells them in demangled names,
integral promotion and the usual arithmetic conversions ([expr.arith.conv]).
Written once, from the standard; checked against clang by specs/selfcheck (static_asserts)."""
import re


class IntT:
    def __init__(self, name, bits, signed, rank, cname):
        self.name, self.bits, self.signed, self.rank, self.cname = name, bits, signed, rank, cname

    @property
    def min(self):
        return -(1 << (self.bits - 1)) if self.signed else 0

    @property
    def max(self):
        return (1 << (self.bits - 1)) - 1 if self.signed else (1 << self.bits) - 1

    @property
    def digits(self):
        return self.bits - 1 if self.signed else self.bits

    @property
    def bytes(self):
        return self.bits // 8

    @property
    def ctype(self):            # unsigned storage type used by the extraction
        return 'vp_u128' if self.bits == 128 else 'uint%d_t' % self.bits

    @property
    def sctype(self):           # C type with the C++ signedness
        if self.bits == 128:
            return 'vp_s128' if self.signed else 'vp_u128'
        return ('int%d_t' if self.signed else 'uint%d_t') % self.bits

    def __repr__(self):
        return self.name


class FloatT:
    def __init__(self, name, mant, cname):
        self.name, self.mant, self.cname = name, mant, cname
        self.ctype = self.sctype = cname
        self.signed = True

    def __repr__(self):
        return self.name


_INTS = [
    IntT('bool', 8, False, 0, 'bool'),
    IntT('char', 8, True, 1, 'char'),
    IntT('signed char', 8, True, 1, 'signed char'),
    IntT('unsigned char', 8, False, 1, 'unsigned char'),
    IntT('short', 16, True, 2, 'short'),
    IntT('unsigned short', 16, False, 2, 'unsigned short'),
    IntT('int', 32, True, 3, 'int'),
    IntT('unsigned int', 32, False, 3, 'unsigned int'),
    IntT('long', 64, True, 4, 'long'),
    IntT('unsigned long', 64, False, 4, 'unsigned long'),
    IntT('long long', 64, True, 5, 'long long'),
    IntT('unsigned long long', 64, False, 5, 'unsigned long long'),
    IntT('__int128', 128, True, 6, '__int128'),
    IntT('unsigned __int128', 128, False, 6, 'unsigned __int128'),
]
BY_NAME = {t.name: t for t in _INTS}
FLOATS = {'float': FloatT('float', 24, 'float'), 'double': FloatT('double', 53, 'double')}

# short aliases used in specs: i8 u8 ... i128 u128
ALIAS = {'i8': 'signed char', 'u8': 'unsigned char', 'i16': 'short', 'u16': 'unsigned short',
         'i32': 'int', 'u32': 'unsigned int', 'i64': 'long', 'u64': 'unsigned long',
         'i128': '__int128', 'u128': 'unsigned __int128', 'f32': 'float', 'f64': 'double',
         'i64l': 'long long', 'u64l': 'unsigned long long'}
CXX_NAME = {'i8': 'std::int8_t', 'u8': 'std::uint8_t', 'i16': 'std::int16_t', 'u16': 'std::uint16_t',
            'i32': 'std::int32_t', 'u32': 'std::uint32_t', 'i64': 'std::int64_t', 'u64': 'std::uint64_t',
            'i128': '__int128', 'u128': 'unsigned __int128', 'f32': 'float', 'f64': 'double',
            'i64l': 'long long', 'u64l': 'unsigned long long'}


def ty(name):
    name = name.strip()
    if name in ALIAS:
        name = ALIAS[name]
    if name in BY_NAME:
        return BY_NAME[name]
    if name in FLOATS:
        return FLOATS[name]
    raise KeyError('unknown C++ arithmetic type %r' % name)


def is_int(t):
    return isinstance(t, IntT)


def promote(t):
    """integral promotion"""
    if t.bits < 32:
        return BY_NAME['int']
    return t


def common(a, b):
    """usual arithmetic conversions for two integer types"""
    a, b = promote(a), promote(b)
    if a.name == b.name:
        return a
    if a.signed == b.signed:
        return a if a.rank >= b.rank else b
    u, s = (a, b) if not a.signed else (b, a)
    if u.rank >= s.rank:
        return u
    if s.bits > u.bits:
        return s
    # signed type cannot represent all values of unsigned: unsigned version of signed type
    return BY_NAME['unsigned ' + s.name]


def wrap(v, t):
    """value v converted to integer type t (modular)"""
    m = 1 << t.bits
    v %= m
    if t.signed and v >= m // 2:
        v -= m
    return v


def split_targs(s):
    """split a template-argument list at top-level commas"""
    out, d, cur = [], 0, ''
    for ch in s:
        if ch in '<([':
            d += 1
        elif ch in '>)]':
            d -= 1
        if ch == ',' and d == 0:
            out.append(cur.strip())
            cur = ''
        else:
            cur += ch
    if cur.strip():
        out.append(cur.strip())
    return out

"""kernel build (clang -> IR -> C), per-job DFCC pipeline, result parsing."""
import json
import os
import re
import shutil
import signal
import struct
import subprocess
import sys
import time
from concurrent.futures import ThreadPoolExecutor

from . import ll2c

REPO = os.environ.get('VP_REPO', '/repo')
VERIF = os.path.dirname(os.path.dirname(os.path.abspath(__file__)))
CLANG = 'clang++-14'

STUB_PATTERNS = [
    (re.compile(r'cnl::_impl::abort<.*>\(char const\*\)(\)\([^()]*\))?$'), 'abort'),
    (re.compile(r'cnl::_impl::throw_exception<.*>\(char const\*\)$'), 'throw'),
]


LIVE = set()          # pids of process groups started by this run (killed on exit / SIGTERM)


def kill_live():
    for pid in list(LIVE):
        try:
            os.killpg(pid, signal.SIGKILL)
        except Exception:
            pass


def install_cleanup():
    import atexit
    atexit.register(kill_live)

    def h(sig, frm):
        kill_live()
        os._exit(143)
    signal.signal(signal.SIGTERM, h)
    signal.signal(signal.SIGINT, h)


class Infra(Exception):
    """infrastructure problem -> exit 2, never a verdict"""


class Contract:
    def __init__(self, requires=(), ensures=(), assigns=(), noreturn=False, note=''):
        self.requires = list(requires)
        self.ensures = list(ensures)
        self.assigns = list(assigns)
        self.noreturn = noreturn
        self.note = note

    def text(self, canary=False, ret='__CPROVER_return_value'):
        return self._text(canary).replace('$RET', ret)

    def _text(self, canary=False):
        out = []
        for r in self.requires or ['1']:
            out.append('__CPROVER_requires(%s)' % r)
        if canary:
            # vacuity canary: same requires, postcondition 'false' only -- must be refuted, i.e. some path reaches the
            # function's return under the stated precondition (the real, possibly expensive, postcondition is not re-proved)
            out.append('__CPROVER_ensures(0)')
        else:
            for e in self.ensures or ['1']:
                out.append('__CPROVER_ensures(%s)' % e)
        out.append('__CPROVER_assigns(%s)' % ', '.join(self.assigns))
        return '\n'.join(out)

    def clauses(self):
        return {'requires': self.requires, 'ensures': self.ensures, 'assigns': self.assigns}


class Kernel:
    def __init__(self, name, src, flags=(), note=''):
        self.name = name
        self.src = src
        self.flags = list(flags)
        self.note = note
        self.tr = None
        self.dir = None
        self.build_s = 0.0

    def cmd(self, src_path, out_path):
        return [CLANG, '-std=gnu++20', '-O0', '-g0', '-S', '-emit-llvm', '-fno-discard-value-names',
                '-I', os.path.join(REPO, 'include'), '-I', os.path.join(VERIF, 'specs', 'include')] + self.flags + [src_path, '-o', out_path]

    def build(self, wd, div_helpers=False):
        t0 = time.time()
        self.dir = os.path.join(wd, 'k_' + self.name)
        os.makedirs(self.dir, exist_ok=True)
        src = os.path.join(self.dir, 'kernel.cpp')
        with open(src, 'w') as f:
            f.write(self.src)
        ll = os.path.join(self.dir, 'kernel.ll')
        cmd = self.cmd(src, ll)
        self.clang_cmd = ' '.join(cmd)
        p = subprocess.run(cmd, capture_output=True, text=True)
        if p.returncode != 0 or not os.path.exists(ll):
            raise Infra('clang failed on kernel %s:\n%s' % (self.name, p.stderr[-4000:]))
        try:
            self.tr = ll2c.translate(open(ll).read(), stubs=STUB_PATTERNS, div_helpers=div_helpers)
        except ll2c.Unsupported as e:
            raise Infra('ll2c failed on kernel %s: %s' % (self.name, e))
        self.by_dem = {}
        for n, i in self.tr.funcs.items():
            self.by_dem.setdefault(i['demangled'], []).append(n)
        self.build_s = time.time() - t0
        return self

    def find(self, pattern, what='target'):
        rx = re.compile(pattern)
        hits = [n for n, i in self.tr.funcs.items() if rx.search(i['demangled'])]
        if len(hits) != 1:
            raise Infra('%s pattern %r matches %d functions in kernel %s%s' % (
                what, pattern, len(hits), self.name,
                ''.join('\n    ' + self.tr.funcs[h]['demangled'][:300] for h in hits[:6])))
        return hits[0]

    def resolve(self, job):
        """IR name of the job's function under contract"""
        if getattr(job, 'via', None):
            root = job.via
            if root not in self.tr.funcs:
                raise Infra('shim %s not in kernel %s' % (root, self.name))
            rx = re.compile(job.target)
            seen, frontier = {root}, [root]
            while frontier:
                hits = [n for n in frontier if n != root and rx.search(self.tr.funcs[n]['demangled'])]
                if hits:
                    hits = sorted(set(hits))
                    if len(hits) > 1:
                        raise Infra('target pattern %r matches %d functions at the same call depth below %s' % (job.target, len(hits), root))
                    return hits[0]
                nxt = []
                for n in frontier:
                    for c in self.tr.funcs[n]['calls']:
                        if c not in seen:
                            seen.add(c)
                            nxt.append(c)
                frontier = nxt
            raise Infra('target pattern %r not reachable from shim %s in kernel %s' % (job.target, root, self.name))
        return self.find(job.target)

    def find_all(self, pattern):
        rx = re.compile(pattern)
        return [n for n, i in self.tr.funcs.items() if rx.search(i['demangled'])]


class Job:
    def __init__(self, name, kernel, target, contract, replace=(), defines=None, harness_pre='',
                 harness=None, unwind=None, solvers=('minisat',), timeout=120, klass='proof', bound='',
                 shim=None, shim_types=None, oracle=None, canary='ensures', skip_this=None, prop=None,
                 extra_c='', loop_contracts=False, note='', inline_ok=True, cbmc_flags=(), inputs=None,
                 expect_fail=None, finding=None, layer=0, object_bits=12, mem_gb=12, cex_filter=None, optional=False, via=None, abstract_mul=False, abstract_fp=False, ignore_classes=(), abstract_div=False, unwindset=(), plain=False, mem_est=None):
        self.mem_est = mem_est      # expected peak resident memory in GB for admission control (default: a quarter of the address-space limit)
        self.unwindset = list(unwindset)
        self.plain = plain      # contract enforced by the harness (assume requires / assert ensures), no DFCC instrumentation: frame NOT checked
        self.via = via
        self.abstract_div = abstract_div
        self.ignore_classes = tuple(ignore_classes)
        self.abstract_fp = abstract_fp
        self.abstract_mul = abstract_mul
        self.optional = optional
        self.name = name
        self.kernel = kernel
        self.target = target
        self.contract = contract
        self.replace = list(replace)
        self.defines = dict(defines or {})
        self.harness_pre = harness_pre
        self.harness = harness
        self.unwind = unwind
        self.solvers = list(solvers)
        self.timeout = timeout
        self.klass = klass
        self.bound = bound
        self.shim = shim
        self.shim_types = shim_types
        self.oracle = oracle
        self.canary = canary
        self.skip_this = skip_this
        self.prop = prop
        self.extra_c = extra_c
        self.loop_contracts = loop_contracts
        self.note = note
        self.cbmc_flags = list(cbmc_flags)
        self.inputs = inputs
        self.finding = finding
        self.layer = layer
        self.object_bits = object_bits
        self.mem_gb = mem_gb
        self.cex_filter = cex_filter


SIGNAL_PRELUDE = r'''
#ifndef VP_TRAP_POS_OK
#define VP_TRAP_POS_OK 0
#endif
#ifndef VP_TRAP_NEG_OK
#define VP_TRAP_NEG_OK 0
#endif
#ifndef VP_THROW_POS_OK
#define VP_THROW_POS_OK 0
#endif
#ifndef VP_THROW_NEG_OK
#define VP_THROW_NEG_OK 0
#endif
#define VP_MSG_IS_POS(m) ((m)[0]=='p' && (m)[1]=='o' && (m)[2]=='s' && (m)[3]=='i' && (m)[9]=='o' && (m)[10]=='v')
#define VP_MSG_IS_NEG(m) ((m)[0]=='n' && (m)[1]=='e' && (m)[2]=='g' && (m)[3]=='a' && (m)[9]=='o' && (m)[10]=='v')
'''


def stub_body(info, kind):
    hdr = info['header']
    if kind == 'abort':
        return hdr + r'''
{
  if (VP_MSG_IS_POS(a0)) { __CPROVER_assert(VP_TRAP_POS_OK, "SIGNAL.trap-positive-overflow: trap with message 'positive overflow' only when the exact result exceeds the maximum"); }
  else if (VP_MSG_IS_NEG(a0)) { __CPROVER_assert(VP_TRAP_NEG_OK, "SIGNAL.trap-negative-overflow: trap with message 'negative overflow' only when the exact result is below the lowest"); }
  else { __CPROVER_assert(0, "UB.unreachable: CNL_ASSERT / unreachable(msg) reached (internal contract failure)"); }
  __CPROVER_assume(0);
}
'''
    if kind == 'throw':
        return hdr + r'''
{
  if (VP_MSG_IS_POS(a0)) { __CPROVER_assert(VP_THROW_POS_OK, "SIGNAL.throw-positive-overflow: std::overflow_error 'positive overflow' only when the exact result exceeds the maximum"); }
  else if (VP_MSG_IS_NEG(a0)) { __CPROVER_assert(VP_THROW_NEG_OK, "SIGNAL.throw-negative-overflow: std::overflow_error 'negative overflow' only when the exact result is below the lowest"); }
  else { __CPROVER_assert(0, "SIGNAL.throw-other: exception with unexpected message"); }
  __CPROVER_assume(0);
}
'''
    raise Infra('unknown stub kind ' + kind)


def classify(desc, prop_name):
    d = desc
    if d.startswith('UB.'):
        return d.split(':')[0]
    if d.startswith('SIGNAL.'):
        return 'signal'
    if d.startswith('VP.'):
        return d.split(':')[0]
    if 'ensures clause' in d:
        return 'postcondition'
    if 'requires clause' in d:
        return 'callee-precondition'
    if 'is assignable' in d or 'assigns clause' in d or 'is freeable' in d:
        return 'frame'
    if 'dereference failure' in d or 'pointer' in d and 'primitive' in d:
        return 'pointer'
    if 'bounds' in d:
        return 'bounds'
    if 'arithmetic overflow' in d:
        return 'arith-overflow'
    if 'recursion unwinding' in d:
        return 'unwinding'
    if 'unwinding assertion' in d:
        return 'unwinding'
    if 'loop invariant' in d or 'decreases' in d or 'invariant' in d:
        return 'loop'
    if 'no body' in d or 'no-body' in prop_name:
        return 'no-body'
    if 'recursive call' in d:
        return 'dfcc-recursion'
    if 'same object' in d or 'pointer relation' in d:
        return 'pointer'
    if 'division by zero' in d:
        return 'arith-divzero'
    if 'shift' in d:
        return 'arith-shift'
    return 'other'


def _val(v):
    """CBMC json value -> python (int bit pattern with width | float | dict | list)"""
    if v is None:
        return None
    n = v.get('name')
    if n == 'struct':
        return {m['name']: _val(m['value']) for m in v.get('members', [])}
    if n == 'array':
        return [_val(e['value']) for e in v.get('elements', [])]
    if n == 'float':
        b = v.get('binary')
        w = v.get('width', len(b) if b else 0)
        if b and w == 32:
            return ('f32', struct.unpack('<f', struct.pack('<I', int(b, 2)))[0], int(b, 2))
        if b and w == 64:
            return ('f64', struct.unpack('<d', struct.pack('<Q', int(b, 2)))[0], int(b, 2))
        return ('f?', v.get('data'), None)
    if n in ('integer', 'boolean', 'pointer', 'unknown') or 'binary' in v:
        b = v.get('binary')
        if b is not None:
            return ('i', int(b, 2), v.get('width', len(b)))
        d = v.get('data')
        if d in ('TRUE', 'true'):
            return ('i', 1, 1)
        if d in ('FALSE', 'false'):
            return ('i', 0, 1)
        return ('?', d, None)
    return ('?', v.get('data'), None)


def flatten(x, out):
    if isinstance(x, dict):
        for k in x:
            if k.startswith('$pad') or k.startswith('$'):
                continue
            flatten(x[k], out)
    elif isinstance(x, list):
        for e in x:
            flatten(e, out)
    elif x is not None:
        out.append(x)


def _set_path(root, path, val):
    cur = root
    for k in path[:-1]:
        cur = cur.setdefault(k, {})
    cur[path[-1]] = val


def cex_from_trace(trace):
    ins = {}
    for st in trace:
        if st.get('stepType') == 'function-call':
            fn = (st.get('function') or {})
            ident = fn.get('identifier') or fn.get('displayName') or ''
            if re.match(r'^F\d+_', ident):
                break           # entry values only: writes the extracted code makes through pointers into vp_in* are not inputs
            continue
        if st.get('stepType') != 'assignment':
            continue
        lhs = st.get('lhs', '')
        if not lhs.startswith('vp_in'):
            continue
        m = re.match(r'^(vp_in\d+)((?:\.\w+|\[\d+\])*)$', lhs)
        if not m:
            continue
        v = _val(st.get('value'))
        if not m.group(2):
            ins[m.group(1)] = v
        else:
            path = re.findall(r'\.(\w+)|\[(\d+)\]', m.group(2))
            keys = [a or int(b) for a, b in path]
            base = ins.get(m.group(1))
            if not isinstance(base, dict):
                base = {}
                ins[m.group(1)] = base
            _set_path(base, keys, v)
    return ins


def run_cmd(cmd, cwd, timeout, mem_gb=12, env=None):
    """returns (rc, stdout, stderr, seconds, timed_out)"""
    t0 = time.time()
    e = dict(os.environ)
    e['TMPDIR'] = cwd
    if env:
        e.update(env)

    def limit():
        import resource
        os.setsid()
        lim = int(mem_gb * (1 << 30))
        resource.setrlimit(resource.RLIMIT_AS, (lim, lim))
    p = subprocess.Popen(cmd, cwd=cwd, stdout=subprocess.PIPE, stderr=subprocess.PIPE, text=True,
                         preexec_fn=limit, env=e)
    LIVE.add(p.pid)
    try:
        out, err = p.communicate(timeout=timeout)
        LIVE.discard(p.pid)
        return p.returncode, out, err, time.time() - t0, False
    except subprocess.TimeoutExpired:
        try:
            os.killpg(p.pid, signal.SIGKILL)
        except Exception:
            p.kill()
        out, err = p.communicate()
        return -9, out, err, time.time() - t0, True


def race(cmds, cwd, timeout, mem_gb=12):
    """run several solver command lines concurrently, first to finish with a verdict wins"""
    if len(cmds) == 1:
        name, cmd = cmds[0]
        rc, out, err, s, to = run_cmd(cmd, cwd, timeout, mem_gb)
        return name, rc, out, err, s, to
    procs = []
    e = dict(os.environ)
    t0 = time.time()
    for name, cmd in cmds:
        d = os.path.join(cwd, 'race_' + name)
        os.makedirs(d, exist_ok=True)
        e2 = dict(e)
        e2['TMPDIR'] = d
        fo = open(os.path.join(d, 'out'), 'w')
        fe = open(os.path.join(d, 'err'), 'w')

        def limit():
            import resource
            os.setsid()
            lim = int(mem_gb * (1 << 30))
            resource.setrlimit(resource.RLIMIT_AS, (lim, lim))
        p = subprocess.Popen(cmd, cwd=cwd, stdout=fo, stderr=fe, text=True, preexec_fn=limit, env=e2)
        LIVE.add(p.pid)
        procs.append((name, p, d, fo, fe))
    winner = None
    while time.time() - t0 < timeout:
        for name, p, d, fo, fe in procs:
            rc = p.poll()
            if rc is not None and rc in (0, 10):
                winner = (name, p, d)
                break
        if winner or all(p.poll() is not None for _, p, _, _, _ in procs):
            break
        time.sleep(0.2)
    for name, p, d, fo, fe in procs:
        if p.poll() is None:
            try:
                os.killpg(p.pid, signal.SIGKILL)
            except Exception:
                p.kill()
            p.wait()
        LIVE.discard(p.pid)
        fo.close()
        fe.close()
    s = time.time() - t0
    if winner is None:
        # pick any finished one for diagnostics
        for name, p, d, fo, fe in procs:
            if p.returncode is not None and p.returncode >= 0:
                return name, p.returncode, open(os.path.join(d, 'out')).read(), open(os.path.join(d, 'err')).read(), s, False
        # nobody produced a verdict: a real timeout only if the budget is used up; otherwise every solver process died (killed: out of memory)
        return procs[0][0], -9, '', '', s, s >= timeout - 1.0
    name, p, d = winner
    return name, p.returncode, open(os.path.join(d, 'out')).read(), open(os.path.join(d, 'err')).read(), s, False


def solver_flags(s):
    if s == 'minisat':
        return []
    if s == 'cadical':
        return ['--sat-solver', 'cadical']
    if s == 'kissat':
        return ['--external-sat-solver', 'kissat']
    if s == 'z3':
        return ['--z3']
    if s == 'cvc5':
        return ['--cvc5']
    raise Infra('unknown solver ' + s)


class JobResult:
    def __init__(self, job):
        self.job = job
        self.status = 'error'       # pass | fail | undecided | error | refused
        self.detail = ''
        self.obligations = []       # dicts name, desc, status, cls
        self.failed = []
        self.cex = None
        self.cex_trace_excerpt = None
        self.solver = None
        self.solver_s = 0.0
        self.wall_s = 0.0
        self.cmds = []
        self.canary = None          # 'ok' | 'vacuous' | 'skipped' | 'error'
        self.target_dem = None
        self.target_c = None
        self.replaced = []
        self.inlined = []
        self.contract = None
        self.log = ''
        self.dir = None
        self.warnings = []

    def counts(self):
        c = {}
        for o in self.obligations:
            c[o['cls']] = c.get(o['cls'], 0) + 1
        return c


def closure(tr, root, cut):
    seen = []
    st = [root]
    s = set()
    while st:
        n = st.pop()
        if n in s:
            continue
        s.add(n)
        seen.append(n)
        if n in cut and n != root:
            continue
        for c in tr.funcs[n]['calls']:
            st.append(c)
    return seen


def c_ptr_target(tr, t):
    """C type of pointee for pointer type t"""
    return tr.cg.ctype(t.a)


def build_job_c(job, kern, canary=False):
    tr = kern.tr
    tgt = kern.resolve(job)
    fi = tr.funcs[tgt]
    if not fi['ok'] or fi.get('stub'):
        raise Infra('target %s not translatable: %s' % (fi['demangled'][:200], fi['reason']))
    m = re.search(job.target, fi['demangled'])
    contract = job.contract(m, fi, tr) if callable(job.contract) else job.contract
    # candidate callees to replace: every function matching a replace pattern; contracts are generated only for
    # those that are actually in the target's call closure
    cand = {}
    for pat, c in job.replace:
        for h in kern.find_all(pat):
            if h != tgt and h not in cand:
                cand[h] = (pat, c)
    clo = closure(tr, tgt, set(cand))
    repl = {}
    for h in clo:
        if h in cand and h != tgt:
            pat, c = cand[h]
            hi = tr.funcs[h]
            mm = re.search(pat, hi['demangled'])
            cc = c(mm, hi, tr) if callable(c) else c
            if cc is not None:
                repl[h] = cc
    if len(repl) != len([h for h in clo if h in cand and h != tgt]):
        clo = closure(tr, tgt, set(repl))
    inlined = []
    bodies = []
    protos_extra = []
    stubs = []
    for n in clo:
        i = tr.funcs[n]
        if n in repl and n != tgt:
            # body not needed; contract on a prototype
            protos_extra.append('%s\n%s;' % (i['header'], repl[n].text(ret=ret_expr(tr, i))))
            continue
        if i.get('stub'):
            stubs.append(stub_body(i, i['stub']))
            continue
        if not i['ok']:
            raise RefusedError(i['demangled'], i['reason'])
        if i.get('indirect'):
            pass
        text = tr.bodies[n]
        if n == tgt:
            text = text.replace('/*CONTRACT:%s*/' % i['cname'], '' if job.plain else contract.text(canary=canary and job.canary == 'ensures', ret=ret_expr(tr, i)))
        else:
            inlined.append(i['demangled'])
        bodies.append(text)
    # functions whose address is taken (indirect calls): include all bodies of lambdas referenced - conservative:
    defs = ''.join('#define %s %s\n' % (k, v) for k, v in job.defines.items())
    if canary and job.plain:
        defs += '#define VP_CANARY 1\n'
    if canary and job.canary == 'signal':
        defs += '#define VP_TRAP_POS_OK 0\n#define VP_TRAP_NEG_OK 0\n#define VP_THROW_POS_OK 0\n#define VP_THROW_NEG_OK 0\n'
        defs = '\n'.join(l for l in defs.split('\n') if not re.match(r'#define VP_(TRAP|THROW)_(POS|NEG)_OK (?!0$)', l)) + '\n'
    # harness
    if job.harness is not None:
        hdecl, hbody = job.harness(fi, tr)
        hbody = hbody.replace('/*PRE*/', job.harness_pre or '')
    else:
        hdecl, hbody = auto_harness(job, fi, tr)
    defs += arg_macros(job, fi, tr)
    parts = [('#define VP_ABSTRACT_MUL 1\n' if job.abstract_mul else '') + ('#define VP_ABSTRACT_FP 1\n' if job.abstract_fp else '') + ('#define VP_ABSTRACT_DIV 1\n' if job.abstract_div else '') + tr.head, hdecl, defs, SIGNAL_PRELUDE, job.extra_c, '\n'.join(stubs), tr.globals_text,
             '\n'.join(protos_extra), '\n'.join(bodies), hbody]
    return '\n'.join(parts), fi, contract, repl, inlined


def scalar_path(tr, t):
    """path of field selectors from a (nested single-member) struct down to its only scalar leaf"""
    path = ''
    while True:
        rt = tr.mod.resolve(t)
        if rt.k == 'struct' and len(rt.a) == 1:
            path += '.f0'
            t = rt.a[0]
        elif rt.k == 'array' and rt.a == 1:
            path += '.a[0]'
            t = rt.b
        else:
            return path, rt


def ret_expr(tr, fi):
    """C expression for the scalar a function returns, whatever ABI coercion clang chose"""
    t = tr.mod.resolve(fi['ret_t'])
    if t.k == 'void':
        # sret: result object behind the first parameter
        if fi['nparams'] and tr.mod.resolve(fi['param_t'][0]).k == 'ptr':
            path, leaf = scalar_path(tr, tr.mod.resolve(fi['param_t'][0]).a)
            return '((*a0)%s)' % path
        return '__CPROVER_return_value'
    if t.k == 'struct' and len(t.a) == 2 and all(tr.mod.resolve(x).k == 'int' and tr.mod.resolve(x).a == 64 for x in t.a):
        return '((((vp_u128)__CPROVER_return_value.f1) << 64) | (vp_u128)__CPROVER_return_value.f0)'
    path, leaf = scalar_path(tr, fi['ret_t'])
    return '(__CPROVER_return_value%s)' % path


class RefusedError(Exception):
    def __init__(self, dem, reason):
        Exception.__init__(self, 'refused function %s: %s' % (dem[:200], reason))
        self.dem, self.reason = dem, reason


def input_params(job, fi):
    """indices of parameters that are inputs (skip stateless-functor 'this')"""
    skip_this = job.skip_this
    if skip_this is None:
        skip_this = '::operator()' in fi['demangled']
    f = fi
    idx = list(range(fi['nparams']))
    return idx, skip_this


def arg_macros(job, fi, tr):
    """VP_ARG<i>: mathematical value of the i-th shim argument over the harness inputs, in a 140-bit signed vector
    (used by known-finding regions, which are written against the native shim's arguments)"""
    if not job.shim_types or job.harness is not None:
        return ''
    from . import cxxtypes as CT
    idx, skip_this = input_params(job, fi)
    def leaves(t, path):
        rt = tr.mod.resolve(t)
        if rt.k == 'struct':
            out_ = []
            for j, m in enumerate(rt.a):
                out_ += leaves(m, path + '.f%d' % j)
            return out_
        if rt.k == 'array':
            out_ = []
            for j in range(rt.a):
                out_ += leaves(rt.b, path + '.a[%d]' % j)
            return out_
        return [(path, rt)]
    exprs = []
    for k in idx:
        if skip_this and k == 0:
            continue
        t = tr.mod.resolve(fi['param_t'][k])
        for path, leaf in leaves(t.a if t.k == 'ptr' else t, ''):
            if leaf.k not in ('int', 'float', 'double'):
                return ''
            exprs.append('vp_in%d%s' % (k, path))
    if len(exprs) != len(job.shim_types):
        return ''
    out = ''
    for i, (e, ts) in enumerate(zip(exprs, job.shim_types)):
        if ts in ('f32', 'f64'):
            out += '#define VP_ARG%d (%s)\n' % (i, e)
            continue
        t = CT.ty(ts)
        out += '#define VP_ARG%d ((__CPROVER_bitvector[140])(%s)(%s))\n' % (i, t.sctype, e)
    return out


def auto_harness(job, fi, tr):
    cg = tr.cg
    decl = []
    body = ['void vp_h(void)', '{']
    args = []
    for k, t in enumerate(fi['param_t']):
        rt = tr.mod.resolve(t)
        if rt.k == 'ptr':
            pt = cg.ctype(rt.a)
            decl.append('%s vp_in%d;' % (pt, k))
            body.append('  { %s t; vp_in%d = t; }' % (pt, k))
            args.append('&vp_in%d' % k)
        else:
            ct = cg.ctype(t)
            decl.append('%s vp_in%d;' % (ct, k))
            body.append('  { %s t; vp_in%d = t; }' % (ct, k))
            args.append('vp_in%d' % k)
    if job.harness_pre:
        body.append('  ' + job.harness_pre)
    rk = tr.mod.resolve(fi['ret_t']).k
    call = '%s(%s)' % (fi['cname'], ', '.join(args))
    if rk == 'void':
        body.append('  %s;' % call)
    else:
        body.append('  %s vp_ret = %s;' % (cg.ctype(fi['ret_t']), call))
    body.append('}')
    return '\n'.join(decl), '\n'.join(body)


def parse_cbmc_json(out):
    try:
        data = json.loads(out)
    except Exception:
        # try to salvage: cbmc prints a JSON array
        i = out.find('[')
        try:
            data = json.loads(out[i:])
        except Exception:
            return None, [], None
    results = None
    status = None
    msgs = []
    for item in data:
        if 'result' in item:
            results = item['result']
        if 'cProverStatus' in item:
            status = item['cProverStatus']
        if item.get('messageType') in ('WARNING', 'ERROR'):
            msgs.append('%s: %s' % (item['messageType'], item.get('messageText', '')))
    return results, msgs, status


def run_job(job, kern, wd):
    res = JobResult(job)
    t0 = time.time()
    jd = os.path.join(wd, 'j_' + re.sub(r'[^A-Za-z0-9_.-]', '_', job.name))
    res.dir = jd
    try:
        if os.path.exists(jd):
            shutil.rmtree(jd)
        os.makedirs(jd)
        if job.optional:
            present = True
            if not job.via:
                present = bool(kern.find_all(job.target))
            else:
                try:
                    kern.resolve(job)
                except Infra as e:
                    present = 'not reachable' not in str(e)
            if not present:
                res.status = 'skipped'
                res.detail = 'function not instantiated in this configuration'
                res.wall_s = time.time() - t0
                return res
        _run_job(job, kern, jd, res)
    except RefusedError as e:
        res.status = 'refused'
        res.detail = str(e)
    except Infra as e:
        res.status = 'error'
        res.detail = str(e)
    except ll2c.Unsupported as e:
        res.status = 'error'
        res.detail = 'll2c: %s' % e
    except Exception as e:      # a bug in a spec generator must not take the whole run down
        import traceback
        res.status = 'error'
        res.detail = 'internal: %s' % traceback.format_exc()[-800:]
    res.wall_s = time.time() - t0
    # disk hygiene: a finished job keeps nothing big (CNF files of the external solver and goto binaries run to GBs)
    if not os.environ.get('VP_KEEP'):
        try:
            if res.status in ('pass', 'skipped'):
                shutil.rmtree(jd, ignore_errors=True)
            else:
                for root, _, files in os.walk(jd):
                    for fn in files:
                        fp = os.path.join(root, fn)
                        if fn.endswith('.cnf') or fn.startswith('external-sat') or os.path.getsize(fp) > (20 << 20):
                            os.remove(fp)
        except OSError:
            pass
    return res


def _pipeline(job, kern, jd, tag, canary, res, want_trace=True):
    text, fi, contract, repl, inlined = build_job_c(job, kern, canary=canary)
    tr = kern.tr
    src = os.path.join(jd, tag + '.c')
    with open(src, 'w') as f:
        f.write(text)
    a = os.path.join(jd, tag + '_a.gb')
    b = os.path.join(jd, tag + '_b.gb')
    cmd1 = ['goto-cc', '--function', 'vp_h', src, '-o', a]
    rc, out, err, s, to = run_cmd(cmd1, jd, 300)
    if rc != 0 or not os.path.exists(a):
        raise Infra('goto-cc failed for %s:\n%s' % (job.name, (out + err)[-3000:]))
    recursive = fi['mangled'] in fi['calls']
    cmd2 = ['goto-instrument', '--dfcc', 'vp_h', '--enforce-contract-rec' if recursive else '--enforce-contract', fi['cname']]
    for h in repl:
        cmd2 += ['--replace-call-with-contract', tr.funcs[h]['cname']]
    if job.loop_contracts:
        cmd2 += ['--apply-loop-contracts']
    cmd2 += [a, b]
    if job.plain:
        cmd2 = ['true', '(contract enforced by the harness: assume requires, call, assert ensures; no goto-instrument step)']
        b = a
    else:
        rc, out, err, s, to = run_cmd(cmd2, jd, 600)
        if rc != 0 or not os.path.exists(b):
            raise Infra('goto-instrument failed for %s:\n%s' % (job.name, (out + err)[-3000:]))
    base = ['cbmc', b, '--no-standard-checks', '--bounds-check', '--pointer-check', '--signed-overflow-check',
            '--object-bits', str(job.object_bits), '--json-ui', '--verbosity', '4']
    if want_trace:
        base += ['--trace']
    if job.unwind:
        base += ['--unwind', str(job.unwind), '--unwinding-assertions']
        # per-loop bounds (still checked by unwinding assertions): (regex on the demangled function name, loop ordinal, k)
        us = []
        for rx, idx, k in job.unwindset:
            hits = [i_ for n_, i_ in tr.funcs.items() if i_.get('ok') and re.search(rx, i_['demangled'])]
            if not hits:
                raise Infra('unwindset pattern %r matches no function (renamed?)' % rx)
            us += ['%s.%d:%d' % (i_['cname'], idx, k) for i_ in hits]
        if us:
            base += ['--unwindset', ','.join(us)]
    base += job.cbmc_flags
    cmds = [(s_, base + solver_flags(s_)) for s_ in job.solvers]
    budget = job.timeout if not canary else min(job.timeout, 900)
    name, rc, out, err, s, to = race(cmds, jd, budget, job.mem_gb)
    with open(os.path.join(jd, tag + '.cbmc.json'), 'w') as f:
        f.write(out)
    res.cmds.append(' '.join(cmd1))
    res.cmds.append(' '.join(cmd2))
    res.cmds.append(' '.join(dict(cmds)[name]))
    return fi, contract, repl, inlined, name, rc, out, err, s, to


def _run_job(job, kern, jd, res):
    fi, contract, repl, inlined, solver, rc, out, err, s, to = _pipeline(job, kern, jd, 'job', False, res)
    tr = kern.tr
    res.target_dem = fi['demangled']
    res.target_c = fi['cname']
    res.contract = contract
    res.replaced = [tr.funcs[h]['demangled'] for h in repl]
    res.inlined = inlined
    res.solver = solver
    res.solver_s = s
    if to:
        res.status = 'undecided'
        res.detail = 'solver timeout after %.0fs (%s)' % (s, ','.join(job.solvers))
        return
    results, msgs, status = parse_cbmc_json(out)
    res.warnings = [m for m in msgs if 'ignoring' in m or 'no body' in m]
    if results is None:
        if rc not in (0, 10):
            res.status = 'undecided' if 'Out of memory' in (out + err) or rc in (-9, 137, 134, -6) else 'error'
            res.detail = 'cbmc rc=%s: %s' % (rc, (err or out)[-1500:])
            return
        res.status = 'error'
        res.detail = 'no results in cbmc output'
        return
    ignored_failed = False
    for r in results:
        cls = classify(r.get('description', ''), r.get('property', ''))
        o = {'name': r.get('property'), 'desc': r.get('description', ''), 'status': r.get('status'), 'cls': cls}
        if cls == 'no-body':
            res.warnings.append('no-body: ' + o['name'])
            continue
        if cls in job.ignore_classes:
            # obligation class discharged by this job's companion (stated in the job's note); not counted here
            ignored_failed = ignored_failed or r.get('status') != 'SUCCESS'
            continue
        res.obligations.append(o)
        if o['status'] != 'SUCCESS':
            o2 = dict(o)
            if 'trace' in r:
                o2['cex'] = cex_from_trace(r['trace'])
                o2['trace_tail'] = [
                    '%s = %s' % (st.get('lhs'), (st.get('value') or {}).get('data'))
                    for st in r['trace'] if st.get('stepType') == 'assignment' and not st.get('hidden')][-40:]
            res.failed.append(o2)
    if any('ignoring' in w for w in res.warnings):
        res.status = 'error'
        res.detail = 'cbmc ignored a quantifier: ' + '; '.join(res.warnings)[:400]
        return
    if not res.obligations:
        res.status = 'error'
        res.detail = 'zero obligations generated'
        return
    has_post = any(o['cls'] == 'postcondition' for o in res.obligations)
    if contract.ensures and not has_post:
        res.status = 'error'
        res.detail = 'no postcondition obligation generated'
        return
    if res.failed:
        res.status = 'fail'
        return
    if rc != 0 and not (rc == 10 and ignored_failed):
        res.status = 'error'
        res.detail = 'cbmc rc=%s but no failed obligation' % rc
        return
    res.status = 'pass'
    # vacuity canary
    if job.canary in ('ensures', 'signal'):
        r2 = JobResult(job)
        try:
            _, _, _, _, solver2, rc2, out2, err2, s2, to2 = _pipeline(job, kern, jd, 'canary', True, r2, want_trace=False)
        except (Infra, RefusedError) as e:
            res.canary = 'error'
            res.status = 'error'
            res.detail = 'canary pipeline failed: %s' % e
            return
        res.solver_s += s2
        if to2:
            res.canary = 'timeout'
            res.status = 'undecided'
            res.detail = 'vacuity canary timed out'
            return
        results2, _, _ = parse_cbmc_json(out2)
        if not results2 and rc2 not in (0, 10):
            res.canary = 'undecided'
            res.status = 'undecided'
            res.detail = 'vacuity canary produced no result (cbmc rc=%s: out of memory / solver failure)' % rc2
            return
        want = 'postcondition' if job.canary == 'ensures' else 'signal'
        bad = [r for r in (results2 or []) if r.get('status') != 'SUCCESS'
               and classify(r.get('description', ''), r.get('property', '')) == want]
        if bad:
            res.canary = 'ok'
        else:
            res.canary = 'vacuous'
            res.status = 'error'
            res.detail = 'vacuity canary: contract with ensures(false)/forbidden signal still verifies -> requires unsatisfiable or body cut off'
    else:
        res.canary = 'skipped'


class MemBudget:
    """cross-process admission control: the checks of several properties may run at the same time on one machine, and a handful of
    whole-tower jobs (C11, C15, C13/C14 at 32 bits) peak at 7-25 GB each.  Every job reserves an estimate (a quarter of its address-space
    limit) in a lock-protected table under /verif/.work before it starts and releases it when done; reservations of dead processes
    are dropped.  A job is always admitted when nothing else is reserved, so there is no deadlock; waiting time is not solver time."""

    def __init__(self):
        self.path = os.path.join(VERIF, '.work', '.membudget.json')
        try:
            total_kb = int(re.search(r'MemTotal:\s+(\d+)', open('/proc/meminfo').read()).group(1))
        except Exception:
            total_kb = 32 << 20
        self.budget = float(os.environ.get('VP_MEM_BUDGET_GB', 0)) or 0.7 * total_kb / (1 << 20)

    def _update(self, fn):
        import fcntl
        os.makedirs(os.path.dirname(self.path), exist_ok=True)
        with open(self.path, 'a+') as f:
            fcntl.flock(f, fcntl.LOCK_EX)
            f.seek(0)
            try:
                tab = json.loads(f.read() or '{}')
            except ValueError:
                tab = {}
            tab = {k: v for k, v in tab.items() if os.path.exists('/proc/' + k.split(':')[0])}
            ok = fn(tab)
            f.seek(0)
            f.truncate()
            f.write(json.dumps(tab))
            return ok

    def acquire(self, key, gb):
        def attempt(tab):
            used = sum(tab.values())
            if used == 0 or used + gb <= self.budget:
                tab[key] = gb
                return True
            return False
        while not self._update(attempt):
            time.sleep(2 + (hash(key) % 100) / 50.0)

    def release(self, key):
        self._update(lambda tab: tab.pop(key, None) is None or True)


MEM = MemBudget()


def run_jobs(jobs, kernels, wd, workers=None, progress=None):
    workers = workers or int(os.environ.get('VP_WORKERS', '14'))
    results = []

    def weight(j):
        return len(j.solvers)
    with ThreadPoolExecutor(max_workers=workers) as ex:
        from concurrent.futures import as_completed
        def admitted(j):
            key = '%d:%s' % (os.getpid(), j.name)
            try:
                MEM.acquire(key, j.mem_est or j.mem_gb / 4.0)
            except OSError:
                key = None          # admission control is best effort (read-only / full disk): run anyway
            try:
                return run_job(j, kernels[j.kernel], wd)
            finally:
                if key:
                    try:
                        MEM.release(key)
                    except OSError:
                        pass
        futs = [ex.submit(admitted, j) for j in jobs]
        for f in as_completed(futs):
            if progress:
                progress(f.result())
        results = [f.result() for f in futs]
    return results

"""native replay of counterexamples on the real code through the kernel's extern "C" shims."""
import json
import os
import re
import shutil
import signal
import subprocess
import time

from . import cxxtypes

REPO = os.environ.get('VP_REPO', '/repo')
VERIF = os.path.dirname(os.path.dirname(os.path.abspath(__file__)))

DRIVER = r'''
// ---- replay driver appended by vplib/replay.py
#include <cstdio>
#include <cstdlib>
#include <cstring>
#include <stdexcept>
#include <string>
#include <type_traits>
#include <unistd.h>
namespace vp_replay {
    template<typename T> T parse(char const* s)
    {
        if constexpr (std::is_floating_point_v<T>) {
            return static_cast<T>(std::strtod(s, nullptr));
        } else {
            bool neg = *s == '-';
            if (neg) ++s;
            unsigned __int128 v = 0;
            for (; *s; ++s) v = v * 10 + unsigned(*s - '0');
            if (neg) v = 0 - v;
            return static_cast<T>(v);
        }
    }
    inline void print128(unsigned __int128 v, bool neg)
    {
        char buf[64]; int n = 0;
        if (v == 0) buf[n++] = '0';
        while (v) { buf[n++] = char('0' + int(v % 10)); v /= 10; }
        if (neg) buf[n++] = '-';
        while (n) std::fputc(buf[--n], stdout);
    }
    template<typename T> void print(T v)
    {
        if constexpr (std::is_floating_point_v<T>) {
            std::printf("%a", double(v));
        } else if constexpr (std::is_same_v<T, bool>) {
            std::printf("%d", int(v));
        } else if constexpr (std::is_signed_v<T> || std::is_same_v<T, __int128>) {
            __int128 w = v;
            if (w < 0) print128(0 - static_cast<unsigned __int128>(w), true); else print128(static_cast<unsigned __int128>(w), false);
        } else {
            print128(static_cast<unsigned __int128>(v), false);
        }
    }
}
int main(int argc, char** argv)
{
    alarm(10);
    if (argc < 2) return 2;
    std::string vp_f = argv[1];
    try {
        VP_REPLAY_CALL
        { std::printf("NOSHIM\n"); return 3; }
    } catch (std::overflow_error const& e) {
        std::printf("THROW %s\n", e.what());
    } catch (std::exception const& e) {
        std::printf("THROW-OTHER %s\n", e.what());
    }
    return 0;
}
'''


def driver_source(kernel_src, shims):
    """shims: list of (name, arg short types, ret) -> one dispatcher main for the whole kernel"""
    calls = []
    seen = set()
    for shim, arg_types, ret_type in shims:
        if shim in seen:
            continue
        seen.add(shim)
        args = ', '.join('vp_replay::parse<%s>(argv[%d])' % (cxxtypes.CXX_NAME.get(t, t), i + 2)
                         for i, t in enumerate(arg_types))
        need = len(arg_types) + 2
        if ret_type in (None, 'void'):
            call = '%s(%s); std::printf("VALUE void\\n");' % (shim, args)
        else:
            call = 'auto r = %s(%s); std::printf("VALUE "); vp_replay::print(r); std::printf("\\n");' % (shim, args)
        calls.append('if (vp_f == "%s" && argc == %d) { %s } else' % (shim, need, call))
    return kernel_src + DRIVER.replace('VP_REPLAY_CALL', '\n        '.join(calls))


def fmt_arg(v, t):
    """v: python int (mathematical value) or float -> argv string"""
    if t in ('f32', 'f64'):
        return float(v).hex() if not isinstance(v, str) else v
    return str(int(v))


def build(src_text, flags, compiler, workdir, tag, extra=()):
    os.makedirs(workdir, exist_ok=True)
    src = os.path.join(workdir, 'replay_%s.cpp' % tag)
    exe = os.path.join(workdir, 'replay_%s' % tag)
    with open(src, 'w') as f:
        f.write(src_text)
    cmd = [compiler, '-std=gnu++20', '-I', os.path.join(REPO, 'include'), '-I', os.path.join(VERIF, 'specs', 'include')] + list(flags) + list(extra) + [src, '-o', exe]
    p = subprocess.run(cmd, capture_output=True, text=True)
    if p.returncode != 0:
        return None, ' '.join(cmd), p.stderr[-3000:]
    return exe, ' '.join(cmd), ''


def observe(exe, argv, timeout=12):
    """run the real code in a child process; returns observation dict"""
    try:
        p = subprocess.run([exe] + argv, capture_output=True, text=True, timeout=timeout,
                           env=dict(os.environ, UBSAN_OPTIONS='print_stacktrace=0:halt_on_error=1',
                                    ASAN_OPTIONS='detect_leaks=0'))
    except subprocess.TimeoutExpired:
        return {'kind': 'hang', 'detail': 'no result within %ds' % timeout}
    out = p.stdout.strip()
    err = p.stderr.strip()
    if p.returncode < 0:
        sig = -p.returncode
        name = signal.Signals(sig).name
        if sig == signal.SIGALRM:
            return {'kind': 'hang', 'detail': 'alarm after 10 s'}
        if sig == signal.SIGABRT:
            msg = err.split('\n')[-1] if err else ''
            if 'overflow' in msg and 'assert' not in msg and 'runtime error' not in err:
                return {'kind': 'trap', 'detail': msg}
            return {'kind': 'abort', 'detail': err[-600:]}
        return {'kind': 'crash', 'detail': name + ' ' + err[-300:]}
    if p.returncode != 0:
        return {'kind': 'sanitizer' if 'runtime error' in err or 'Sanitizer' in err else 'exit',
                'detail': ('rc=%d ' % p.returncode) + err[-800:]}
    m = re.match(r'^(VALUE|THROW|THROW-OTHER) ?(.*)$', out.split('\n')[-1] if out else '')
    if not m:
        return {'kind': 'unknown', 'detail': out[-300:] + err[-300:]}
    if m.group(1) == 'VALUE':
        return {'kind': 'value', 'detail': m.group(2), 'stderr': err[-600:]}
    return {'kind': 'throw', 'detail': m.group(2)}


def matches(obs, expected):
    """expected: ('value', v) | ('trap', 'positive'|'negative') | ('throw', ...) | ('any',) | ('novalue',)
    returns True if the observation agrees with the oracle"""
    if expected is None or expected[0] == 'any':
        return True
    k = expected[0]
    if k == 'value':
        if obs['kind'] != 'value':
            return False
        want = expected[1]
        got = obs['detail']
        if isinstance(want, float):
            try:
                g = float.fromhex(got)
            except ValueError:
                return False
            return g == want or (g != g and want != want)
        if isinstance(want, (list, tuple)):
            return got.split() == [str(x) for x in want]
        return got == str(want)
    if k == 'within1':
        if obs['kind'] != 'value':
            return False
        try:
            return abs(int(obs['detail']) - int(expected[1])) <= 1
        except ValueError:
            return False
    if k in ('trap', 'throw'):
        return obs['kind'] == k and expected[1] in obs['detail']
    if k == 'defined':    # any value or sanctioned signal, but no crash/UB/hang
        return obs['kind'] in ('value', 'trap', 'throw')
    return False

"""C09 -- narrowing conversions under a rounding mode are correctly rounded.

Functions under contract (whole function, helpers such as half() and the inner native conversions inlined):
  S2S  cnl::custom_operator<convert_op, op_value<scaled_integer<In,power<Ei>>, native_tag|power<0>>,
                             op_value<scaled_integer<Out,power<Eo>>, RoundingTag>>::operator()   finer -> coarser scaled_integer
  F2S  the same with a float / double source                                                     (tie_to_pos_inf, neg_inf; nearest where no long double is involved)
  F2I  cnl::custom_operator<convert_op, op_value<F, native_tag>, op_value<Int, RoundingTag>>     float -> integer (rounding/convert_operator.h)
Postcondition with u = 2^(Eo-Ei) > 1 (integers), src/ret the reps:
  nearest (ties away from zero): 2|src - ret*u| <= u and (2|src - ret*u| == u ==> |ret*u| > |src|)
  tie to +inf                  : -u <= 2 (src - ret*u) < u
  neg_inf (floor)              : 0 <= src - ret*u < u
  no digits lost (Eo <= Ei)    : ret * 2^(Ei-Eo)... exact:  ret == src * 2^(Ei-Eo)
Precondition: the rounded result is representable in the destination.  UB obligations inside (from + half) are in scope.
"""
from vplib import cxxtypes as CT
from vplib.speclib import (KERNEL_HEAD, T, cxx, dem, W, wval, wconst, Contract, Job, Kernel, shim, arg_rep, short_of)

PROP = 'C09'
TAGS = {'nearest': 'cnl::nearest_rounding_tag', 'tie_pos': 'cnl::tie_to_pos_inf_rounding_tag', 'neg_inf': 'cnl::neg_inf_rounding_tag'}


def absx(e):
    return '(%s < 0 ? -%s : %s)' % (e, e, e)


def py_round(mode, num, den):
    from fractions import Fraction
    import math
    x = Fraction(num, den)
    if mode == 'nearest':
        fl = math.floor(abs(x) + Fraction(1, 2))
        return fl if x >= 0 else -fl
    if mode == 'tie_pos':
        return math.floor(x + Fraction(1, 2))
    return math.floor(x)


def s2s_contract(mode, S, Ei, D, Eo, first=1):
    def gen(m, fi, tr):
        k = Eo - Ei
        w = max(S.bits + max(-k, 0), D.bits + max(k, 0)) + 8
        src = wval(arg_rep(tr, fi, first), S, w)
        ret = wval('$RET', D, w)
        if k <= 0:
            ex = '(%s * %s)' % (src, wconst(2 ** -k, w))
            return Contract(requires=['%s >= %s && %s <= %s' % (ex, wconst(D.min, w), ex, wconst(D.max, w))],
                            ensures=['%s == %s' % (ret, ex)], assigns=[], note='no digits lost: exact')
        u = wconst(2 ** k, w)
        d = '(%s - %s * %s)' % (src, ret, u)
        # representability of the rounded result, as a closed condition on src: the exactly rounded quotient lies in D's range
        lo, hi = D.min * 2 ** k, D.max * 2 ** k
        if mode == 'nearest':
            req = ['%s > %s && %s < %s' % (src, wconst(lo - 2 ** (k - 1), w), src, wconst(hi + 2 ** (k - 1), w))] if D.signed else \
                  ['%s > %s && %s < %s' % (src, wconst(-(2 ** (k - 1)), w), src, wconst(hi + 2 ** (k - 1), w))]
            ens = ['2 * %s <= %s' % (absx(d), u), '(2 * %s == %s) ==> (%s > %s)' % (absx(d), u, absx('(%s * %s)' % (ret, u)), absx(src))]
        elif mode == 'tie_pos':
            req = ['%s >= %s && %s < %s' % (src, wconst(lo - 2 ** (k - 1), w), src, wconst(hi + 2 ** (k - 1), w))]
            ens = ['-%s <= 2 * %s && 2 * %s < %s' % (u, d, d, u)]
        else:
            req = ['%s >= %s && %s < %s' % (src, wconst(lo, w), src, wconst(hi + 2 ** k, w))]
            ens = ['0 <= %s && %s < %s' % (d, d, u)]
        return Contract(requires=req, ensures=ens, assigns=[], note='correctly rounded to a multiple of 2^%d, mode %s' % (k, mode))
    return gen


def s2s_oracle(mode, S, Ei, D, Eo):
    def o(s):
        k = Eo - Ei
        v = s * 2 ** -k if k <= 0 else py_round(mode, s, 2 ** k)
        return None if not D.min <= v <= D.max else ('value', v)
    return o


def plan(tier):
    thorough = tier == 'thorough'
    src = [KERNEL_HEAD]
    jobs = []
    kname = 'C09'
    inst = [('i16', -8, 'i8', 0), ('i32', -16, 'i16', -4), ('u16', -4, 'u8', 0), ('i8', -4, 'i8', -1)]      # convert<rounding tag> to a FINER or equal scaled_integer does not compile (no call operator / ambiguous): 'no digits lost' has no instance to verify
    if thorough:
        inst += [('i32', -20, 'i16', 0), ('u32', -16, 'u32', 0), ('i32', -1, 'i32', 0)]
    P = (r'^cnl::custom_operator<cnl::_impl::convert_op, cnl::op_value<cnl::_impl::wrapper<[a-z_0-9 ]+, cnl::power<-?\d+, 2> >, cnl::_impl::native_tag>, '
         r'cnl::op_value<cnl::_impl::wrapper<[a-z_0-9 ]+, cnl::power<-?\d+, 2> >, cnl::\w+_rounding_tag> >::operator\(\)\(')
    for mode, tg in TAGS.items():
        for (s, ei, d, eo) in inst:
            S, D = T(s), T(d)
            A = 'cnl::scaled_integer<%s, cnl::power<%d>>' % (cxx(s), ei)
            B = 'cnl::scaled_integer<%s, cnl::power<%d>>' % (cxx(d), eo)
            tag = '%s_%s_%s_to_%s_%s' % (mode, s, str(ei).replace('-', 'm'), d, str(eo).replace('-', 'm'))
            sname = 'vp_' + tag
            src.append(shim(d, sname, [(s, 'a')], 'return cnl::_impl::to_rep(cnl::convert<%s, %s>{}(cnl::_impl::from_rep<%s>(a)));' % (tg, B, A)))
            jobs.append(Job('%s.S2S.%s' % (PROP, tag), kname, P, s2s_contract(mode, S, ei, D, eo, 1), via=sname,
                            shim=sname, shim_types=[s], oracle=s2s_oracle(mode, S, ei, D, eo), prop=PROP, timeout=300, layer=1))
    # finer scaled_integer -> built-in integer under nearest_rounding_tag (the other tags do not provide this form): same contract with destination exponent 0
    PB = r'^cnl::custom_operator<cnl::_impl::convert_op, cnl::op_value<cnl::_impl::wrapper<[a-z_0-9 ]+, cnl::power<-?\d+, 2> >, cnl::power<0, 2> >, cnl::op_value<[a-z_0-9 ]+, cnl::nearest_rounding_tag> >::operator\(\)\('
    for (s_, ei, d) in [('i16', -4, 'i32'), ('i8', -3, 'i32')] + ([('u16', -3, 'i32'), ('i16', -9, 'i64')] if thorough else []):      # 32-bit sources hit the registered bias-overflow class (C09-s2s-bias-*): not re-planned here
        S, D = T(s_), T(d)
        A = 'cnl::scaled_integer<%s, cnl::power<%d>>' % (cxx(s_), ei)
        tag = 'nearest_%s_%s_to_builtin_%s' % (s_, str(ei).replace('-', 'm'), d)
        sname = 'vp_' + tag
        src.append(shim(d, sname, [(s_, 'a')], 'return cnl::convert<cnl::nearest_rounding_tag, %s, cnl::power<>>{}(cnl::_impl::from_rep<%s>(a));' % (cxx(d), A)))
        jobs.append(Job('%s.S2B.%s' % (PROP, tag), kname, PB, s2s_contract('nearest', S, ei, D, 0, 1), via=sname,
                        shim=sname, shim_types=[s_], oracle=s2s_oracle('nearest', S, ei, D, 0), prop=PROP, timeout=300, layer=1))
    # ... and under tie_to_pos_inf / neg_inf, which offer the two-argument form convert<Tag, Integer> (seed C09_3: the inner conversion delegated to
    # the native tag); whole operator inlined
    PB2 = (r'^cnl::custom_operator<cnl::_impl::convert_op, cnl::op_value<cnl::_impl::wrapper<[a-z_0-9 ]+, cnl::power<-?\d+, 2> >, cnl::_impl::native_tag>, '
           r'cnl::op_value<[a-z_0-9 ]+, cnl::\w+_rounding_tag> >::operator\(\)\(')
    for mode in ('tie_pos', 'neg_inf'):
        for (s_, ei, d) in [('i16', -4, 'i32'), ('i8', -3, 'i32')] + ([('u16', -3, 'i32'), ('i16', -9, 'i64')] if thorough else []):
            S, D = T(s_), T(d)
            A = 'cnl::scaled_integer<%s, cnl::power<%d>>' % (cxx(s_), ei)
            tag = '%s_%s_%s_to_builtin_%s' % (mode, s_, str(ei).replace('-', 'm'), d)
            sname = 'vp_' + tag
            src.append(shim(d, sname, [(s_, 'a')], 'return cnl::convert<%s, %s>{}(cnl::_impl::from_rep<%s>(a));' % (TAGS[mode], cxx(d), A)))
            jobs.append(Job('%s.S2B.%s' % (PROP, tag), kname, PB2, s2s_contract(mode, S, ei, D, 0, 1), via=sname,
                            shim=sname, shim_types=[s_], oracle=s2s_oracle(mode, S, ei, D, 0), prop=PROP, timeout=300, layer=2))
    # float -> integer under tie_to_pos_inf / neg_inf (rounding/convert_operator.h); nearest uses long double: refused
    PF = r'^cnl::custom_operator<cnl::_impl::convert_op, cnl::op_value<(float|double), cnl::_impl::native_tag>, cnl::op_value<[a-z_0-9 ]+, cnl::\w+_rounding_tag> >::operator\(\)\('
    for mode, tg in (('tie_pos', TAGS['tie_pos']), ('neg_inf', TAGS['neg_inf'])):
        for (f, d) in [('f32', 'i8'), ('f32', 'i32'), ('f64', 'i16'), ('f64', 'i32')] + ([('f32', 'i16'), ('f64', 'i64')] if thorough else []):
            D = T(d)
            F = 'float' if f == 'f32' else 'double'
            tag = '%s_%s_to_%s' % (mode, f, d)
            sname = 'vp_' + tag
            src.append(shim(d, sname, [(f, 'a')], 'return cnl::convert<%s, %s>{}(a);' % (tg, cxx(d))))
            x = '(*a1)'
            r = '((%s)(%s)$RET)' % (F, D.sctype)
            if D.bits >= (24 if f == 'f32' else 53):
                continue      # (F)ret is not exact for every ret of this width: the comparison below would itself round
            if mode == 'neg_inf':
                req = ['%s >= %s && %s < %s' % (x, float(D.min).hex(), x, float(D.max + 1).hex())]
                ens = ['%s <= %s && %s < %s + 1' % (r, x, x, r)]
            else:
                # round half up: ret - 1/2 <= x < ret + 1/2, all four terms exact in F for these widths (|ret| < 2^(mant-1))
                req = ['%s >= %s && %s < %s' % (x, float(D.min - 0.5).hex(), x, float(D.max + 0.5).hex())]
                ens = ['%s - 0.5%s <= %s && %s < %s + 0.5%s' % (r, 'f' if f == 'f32' else '', x, x, r, 'f' if f == 'f32' else '')]
            jobs.append(Job('%s.F2I.%s' % (PROP, tag), kname, PF, Contract(requires=req, ensures=ens, assigns=[], note='float -> integer, mode %s' % mode),
                            via=sname, shim=sname, shim_types=[f], prop=PROP, timeout=300, layer=1,
                            oracle=(lambda mode, D: lambda xv: None if (xv != xv or xv in (float('inf'), float('-inf'))) else (lambda v: None if not D.min <= v <= D.max else ('value', v))(
                                __import__('math').floor(__import__('fractions').Fraction(xv) + __import__('fractions').Fraction(1, 2)) if mode == 'tie_pos'
                                else __import__('math').floor(__import__('fractions').Fraction(xv))))(mode, D)))
    k = Kernel(kname, ''.join(src), [], 'rounding conversions')
    meta = {'instantiations': len(jobs),
            'explanation': 'division-free rounding characterisations on the reps; float sources through CBMC\'s IEEE-754 encoding',
            'not_applicable_parts': ['nearest_rounding_tag float -> integer: adds +-0.5L in long double (x87 80-bit), which CBMC cannot model: refused',
                                     'all long double sources', 'float -> scaled_integer under a rounding tag: not built'],
            'assumptions': ['IEEE-754 binary32/binary64 as modelled by CBMC']}
    return {'kernels': [k], 'jobs': jobs, 'meta': meta}

"""C04 -- conversions preserve the value or truncate toward zero at the destination resolution.

Functions under contract (whole function with its glue inlined: scale, from_value, power_value are real extracted bodies):
  I2I  cnl::custom_operator<convert_op, op_value<S, power<Es>>, op_value<D, power<Ed>>>::operator()(S const&)      integer -> integer
         k = Es - Ed >= 0: ret == s * 2^k (exact);   k < 0: ret == trunc(s / 2^-k) (toward zero)
         precondition: the converted value is within D's range
  CTOR cnl::_impl::wrapper<D, power<Ed>>::wrapper(wrapper<S, power<Es>> const&)  (static_cast between scaled_integer types), I2I replaced by contract
  I2F  cnl::custom_operator<convert_op, op_value<S, power<Es>>, op_value<F, power<0>>>::operator()                   integer -> float/double
         ret == RNE_F(s * 2^Es): one rounding of the exact value (the exact value is formed in double / a wide vector)
  F2I  cnl::custom_operator<convert_op, op_value<F, power<0>>, op_value<D, power<Ed>>>::operator()                   float/double -> integer
         ret == trunc(x * 2^-Ed) for every finite x whose scaled value is within D's range (UB.float-to-int-range is an obligation)
  RT   round trip: for S with at most as many digits as F's significand, F2I(I2F(s)) == s  (stated on I2F: the inverse formula gives s back)
  from_rep / to_rep / wrap / unwrap: identity on the rep.
long double is not modelled (CBMC: binary128, target: x87) -- not claimed.
"""
from vplib import cxxtypes as CT
from vplib.speclib import (KERNEL_HEAD, T, cxx, dem, W, wval, wconst, Contract, Job, Kernel, shim, arg_rep, short_of, bits_for)

PROP = 'C04'


def i2i_contract(S, Es, D, Ed, first=1):
    def gen(m, fi, tr):
        k = Es - Ed
        w = max(S.bits + max(k, 0), D.bits) + 6
        s = wval(arg_rep(tr, fi, first), S, w)
        if k >= 0:
            ex = '(%s * %s)' % (s, wconst(2 ** k, w))
        else:
            ex = '(%s / %s)' % (s, wconst(2 ** -k, w))       # C division on signed vectors truncates toward zero
        if fi['ret_t'].k == 'void':
            ret = wval('((*a0)%s)' % __import__('vplib.run', fromlist=['scalar_path']).scalar_path(tr, tr.mod.resolve(fi['param_t'][0]).a)[0], D, w)
            assigns = ['*a0']
        else:
            ret = wval('$RET', D, w)
            assigns = []
        return Contract(requires=['%s >= %s && %s <= %s' % (ex, wconst(D.min, w), ex, wconst(D.max, w))],
                        ensures=['%s == %s' % (ret, ex)], assigns=assigns,
                        note='value preserved (k=%d >= 0) / truncated toward zero to the destination resolution (k < 0)' % k)
    return gen


def py_i2i(S, Es, D, Ed):
    def o(s):
        k = Es - Ed
        if k >= 0:
            v = s * 2 ** k
        else:
            q = abs(s) // 2 ** -k
            v = q if s >= 0 else -q
        return None if not D.min <= v <= D.max else ('value', v)
    return o


def rne_int(v, mant):
    """integer v rounded to `mant` significant bits, nearest-even, as an exactly representable python float"""
    a = abs(v)
    nb = a.bit_length()
    if nb > mant:
        sh = nb - mant
        q, rem, half = a >> sh, a & ((1 << sh) - 1), 1 << (sh - 1)
        if rem > half or (rem == half and (q & 1)):
            q += 1
        a = q << sh
    return float(-a if v < 0 else a)


def plan(tier):
    thorough = tier == 'thorough'
    src = [KERNEL_HEAD]
    jobs = []
    kname = 'C04'
    inst = [('i32', -16, 'i16', -4), ('i16', -4, 'i32', -16), ('u8', 0, 'i32', -20), ('i32', -8, 'u32', -8), ('i64', -40, 'i16', 0),
            ('i16', 3, 'i64', -10), ('u32', -31, 'u8', 0), ('i32', 8, 'i32', -8), ('i16', -4, 'i16', 2), ('i32', -8, 'i8', 1)]
    if thorough:
        inst += [('i8', -7, 'i8', 0), ('u64', -60, 'u16', -10), ('i64', 30, 'i64', -30), ('i32', -70, 'i32', -60), ('u16', 0, 'u64', -48), ('i16', -13, 'i64', 0)]
    P_I2I = r'^cnl::custom_operator<cnl::_impl::convert_op, cnl::op_value<[a-z_0-9 ]+, cnl::power<-?\d+, 2> >, cnl::op_value<[a-z_0-9 ]+, cnl::power<-?\d+, 2> > >::operator\(\)\('
    P_CTOR = r'^cnl::_impl::wrapper<[a-z_0-9 ]+, cnl::power<-?\d+, 2> >::wrapper<[a-z_0-9 ]+, cnl::power<-?\d+, 2> >\(cnl::_impl::wrapper<'
    for (s, es, d, ed) in inst:
        S, D = T(s), T(d)
        A = 'cnl::scaled_integer<%s, cnl::power<%d>>' % (cxx(s), es)
        B = 'cnl::scaled_integer<%s, cnl::power<%d>>' % (cxx(d), ed)
        tag = '%s_%s_to_%s_%s' % (s, str(es).replace('-', 'm'), d, str(ed).replace('-', 'm'))
        sname = 'vp_cv_' + tag
        src.append(shim(d, sname, [(s, 'a')], 'return cnl::_impl::to_rep(static_cast<%s>(cnl::_impl::from_rep<%s>(a)));' % (B, A)))
        common = dict(shim=sname, shim_types=[s], oracle=py_i2i(S, es, D, ed), prop=PROP, via=sname, timeout=300)
        jobs.append(Job('%s.I2I.%s' % (PROP, tag), kname, P_I2I, i2i_contract(S, es, D, ed, 1), layer=1, **common))
        jobs.append(Job('%s.CTOR.%s' % (PROP, tag), kname, P_CTOR, i2i_contract(S, es, D, ed, 1),
                        replace=[(P_I2I, i2i_contract(S, es, D, ed, 1))], layer=2, skip_this=True, **common))
    # integer -> floating and back
    finst = [('i16', -4, 'f32'), ('i8', 0, 'f32'), ('u16', -16, 'f32'), ('i32', -16, 'f64'), ('u32', 8, 'f64'), ('i32', -8, 'f32'),
             ('i64', -32, 'f32'), ('u64', -16, 'f32'), ('i64', -10, 'f64')]       # reps with more digits than a double's significand (seed C04_2: double rounding)
    P_I2F = r'^cnl::custom_operator<cnl::_impl::convert_op, cnl::op_value<[a-z_0-9 ]+, cnl::power<-?\d+, 2> >, cnl::op_value<(float|double), cnl::power<0, 2> > >::operator\(\)\('
    P_F2I = r'^cnl::custom_operator<cnl::_impl::convert_op, cnl::op_value<(float|double), cnl::power<0, 2> >, cnl::op_value<[a-z_0-9 ]+, cnl::power<-?\d+, 2> > >::operator\(\)\('
    for (s, es, f) in finst:
        S = T(s)
        F = 'float' if f == 'f32' else 'double'
        mant = 24 if f == 'f32' else 53
        A = 'cnl::scaled_integer<%s, cnl::power<%d>>' % (cxx(s), es)
        tag = '%s_%s_%s' % (s, str(es).replace('-', 'm'), f)
        sname = 'vp_tof_' + tag
        src.append(shim(f, sname, [(s, 'a')], 'return static_cast<%s>(cnl::_impl::from_rep<%s>(a));' % (F, A)))
        sval = '((%s)(*a1))' % S.sctype
        scale = float(2.0 ** es).hex()
        # the exact value s*2^Es is representable in double for these reps; rounding it once to F is the correctly rounded result
        exact_d = '((double)%s * %s)' % (sval, scale)
        ens = ['$RET == (%s)%s' % (F, exact_d)]
        if S.digits > 53:
            # the rep does not fit a double: the correctly rounded value of rep*2^E is RNE_F(rep) (IEEE convertFromInt, one rounding,
            # CBMC's bit-precise int->float) scaled by the exactly representable power 2^E (no overflow/underflow for these exponents)
            ens = ['$RET == ((%s)%s) * (%s)%s' % (F, sval, F, scale)]
        if S.digits <= mant:
            # round trip: converting back (multiply by 2^-Es, truncate) yields s again
            ens.append('(%s)($RET * (%s)%s) == %s' % (S.sctype, F, float(2.0 ** -es).hex(), sval))
        jobs.append(Job('%s.I2F.%s' % (PROP, tag), kname, P_I2F, Contract(requires=[], ensures=ens, assigns=[],
                        note='correctly rounded (nearest-even) value of rep*2^E; identity round trip when the significand has enough digits'),
                        via=sname, shim=sname, shim_types=[s], prop=PROP, timeout=300,
                        oracle=(lambda es, f: lambda v: ('value', rne_int(v, 24 if f == 'f32' else 53) * 2.0 ** es))(es, f)))
        sname2 = 'vp_fromf_' + tag
        src.append(shim(s, sname2, [(f, 'a')], 'return cnl::_impl::to_rep(%s{a});' % A))
        x = '(*a1)'
        lo = float(S.min - 1) if S.bits < mant else float(S.min)
        scaled = '((double)%s * %s)' % (x, float(2.0 ** -es).hex())
        inrange = ('(%s > %s && %s < %s)' % (scaled, float(S.min - 1).hex(), scaled, float(S.max + 1).hex()))
        jobs.append(Job('%s.F2I.%s' % (PROP, tag), kname, P_F2I,
                        Contract(requires=[inrange], ensures=['(%s)$RET == (%s)%s' % (S.sctype, S.sctype, scaled)], assigns=[],
                                 note='source value scaled by the exact power and truncated toward zero'),
                        via=sname2, shim=sname2, shim_types=[f], prop=PROP, timeout=300,
                        oracle=(lambda es, S: lambda x: None if (x != x or not (S.min - 1 < x * 2.0 ** -es < S.max + 1)) else ('value', int(x * 2.0 ** -es)))(es, S)))
    # scaled_integer <-> built-in integer (the integer counts as exponent 0): conversion operator and converting constructor, whole function inlined
    for (s_, es, d) in [('i32', -8, 'i32'), ('i16', -4, 'i8'), ('i16', 4, 'i64'), ('u16', -3, 'i32')] + ([('i64', -20, 'i16'), ('i8', 2, 'u32')] if thorough else []):
        S, D = T(s_), T(d)
        A = 'cnl::scaled_integer<%s, cnl::power<%d>>' % (cxx(s_), es)
        tag = '%s_%s_to_%s' % (s_, str(es).replace('-', 'm'), d)
        sname = 'vp_s2b_' + tag
        src.append(shim(d, sname, [(s_, 'a')], 'return static_cast<%s>(cnl::_impl::from_rep<%s>(a));' % (cxx(d), A)))
        jobs.append(Job('%s.S2B.%s' % (PROP, tag), kname, r'^cnl::_impl::wrapper<%s, cnl::power<%d, 2> >::operator %s<%s>\(\) const$' % (dem(s_), es, dem(d), dem(d)),
                        i2i_contract(S, es, D, 0, 0), via=sname, shim=sname, shim_types=[s_], oracle=py_i2i(S, es, D, 0), prop=PROP, timeout=300, layer=2, skip_this=False))
    for (s_, d, ed) in [('i32', 'i32', -8), ('i8', 'i16', -4), ('i64', 'i16', 4), ('u8', 'u16', -3)] + ([('i16', 'i64', -20), ('u32', 'i8', 2)] if thorough else []):
        S, D = T(s_), T(d)
        B = 'cnl::scaled_integer<%s, cnl::power<%d>>' % (cxx(d), ed)
        tag = '%s_to_%s_%s' % (s_, d, str(ed).replace('-', 'm'))
        sname = 'vp_b2s_' + tag
        src.append(shim(d, sname, [(s_, 'a')], 'return cnl::_impl::to_rep(%s{a});' % B))
        jobs.append(Job('%s.B2S.%s' % (PROP, tag), kname, r'^cnl::_impl::wrapper<%s, cnl::power<%d, 2> >::wrapper<%s>\(%s const&\)$' % (dem(d), ed, dem(s_), dem(s_)),
                        i2i_contract(S, 0, D, ed, 1), via=sname, shim=sname, shim_types=[s_], oracle=py_i2i(S, 0, D, ed), prop=PROP, timeout=300, layer=2, skip_this=True))
    # from_rep / to_rep inverses
    for (s, es) in [('i32', -16), ('u8', 5)]:
        A = 'cnl::scaled_integer<%s, cnl::power<%d>>' % (cxx(s), es)
        sname = 'vp_fr_%s_%s' % (s, str(es).replace('-', 'm'))
        src.append(shim(s, sname, [(s, 'a')], 'return cnl::_impl::to_rep(cnl::_impl::from_rep<%s>(a));' % A))
        src.append(shim(s, sname + '_w', [(s, 'a')], 'return cnl::unwrap(cnl::wrap<%s>(a));' % A))
        jobs.append(Job('%s.from_rep.%s' % (PROP, s), kname, r'^auto cnl::_impl::from_rep<cnl::_impl::wrapper<%s, cnl::power<%d, 2> >, %s>\(' % (dem(s), es, dem(s)),
                        (lambda m, fi, tr: Contract(requires=[], ensures=['$RET == (*a0)'], assigns=[], note='from_rep stores the rep unchanged (to_rep reads it back)')),
                        via=sname, shim=sname, shim_types=[s], oracle=lambda v: ('value', v), prop=PROP, timeout=120, skip_this=False))
    k = Kernel(kname, ''.join(src), [], 'conversions')
    meta = {'instantiations': len(jobs),
            'explanation': 'value-preservation / truncation-toward-zero contracts on the convert operators; floating point decided by CBMC\'s bit-precise IEEE-754 encoding',
            'not_applicable_parts': ['long double (x87 80-bit) sources and destinations: CBMC models long double as binary128',
                                      'radix 10 conversions'],
            'assumptions': ['IEEE-754 binary32/binary64 round-to-nearest-even as modelled by CBMC; no -ffast-math']}
    return {'kernels': [k], 'jobs': jobs, 'meta': meta}

"""C19 -- sqrt returns the floor of the square root at the result's resolution.

Functions under contract:
  L0  cnl::sqrt<Integer>(Integer const&)                      requires x >= 0; ensures r >= 0, r*r <= x < (r+1)*(r+1)  (2N+2-bit vector)
      termination = unwinding assertions of its two loops (trip counts <= N/2 + 1), i.e. proved for every input of the instantiation
  L1  cnl::sqrt(elastic_integer<D,N> const&)                  L0 replaced by contract; result within (D+1)/2 digits
  L1  cnl::sqrt(scaled_integer<Rep, power<E>> const&)         L0 replaced by contract; same relation on the reps; result exponent E/2 (fact)
8/16-bit: proof in the quick tier; 32-bit: proof in the thorough tier (kissat/cadical); 64-bit: bounded stand-in (x < 2^24), labelled bounded.
"""
from vplib import cxxtypes as CT
from vplib.speclib import (KERNEL_HEAD, T, cxx, dem, W, wval, wconst, Contract, Job, Kernel, shim, fact_shim, fact_job,
                           arg_rep, short_of)

PROP = 'C19'
P_LEAF = r'^auto cnl::sqrt<(?P<T>[a-z_0-9 ]+)>\((?P=T) const&\)$'


def isqrt_contract(t, res, arg, extra_req=(), digits=None):
    w = 2 * max(t.bits, res.bits) + 4
    x = wval(arg, t, w)
    r = wval('$RET', res, w)
    ens = ['%s >= 0' % r, '%s * %s <= %s' % (r, r, x), '%s < (%s + 1) * (%s + 1)' % (x, r, r)]
    if digits is not None:
        ens.append('%s <= %s' % (r, wconst(2 ** digits - 1, w)))
    return Contract(requires=['%s >= 0' % x] + list(extra_req), ensures=ens, assigns=[],
                    note='r is the unique r >= 0 with r*r <= x < (r+1)*(r+1)')


def c_leaf(m, fi, tr):
    t = CT.ty(m['T'])
    return isqrt_contract(t, CT.promote(t), '(*a0)')


def py_isqrt(x):
    import math
    return math.isqrt(x)


def plan(tier):
    thorough = tier == 'thorough'
    src = [KERNEL_HEAD]
    jobs = []
    kname = 'C19'
    types = ['i8', 'u8', 'i16', 'u16'] + (['i32', 'u32'] if thorough else [])
    for ts in types:
        t = T(ts)
        res = CT.promote(t)
        sname = 'vp_sqrt_' + ts
        src.append(shim(short_of(res), sname, [(ts, 'a')], 'return cnl::sqrt(a);'))
        heavy = t.bits >= 32
        jobs.append(Job('%s.L0.sqrt.%s' % (PROP, ts), kname, r'^auto cnl::sqrt<%s>\(%s const&\)$' % (dem(ts), dem(ts)),
                        isqrt_contract(t, res, '(*a0)'), shim=sname, shim_types=[ts],
                        oracle=lambda x: None if x < 0 else ('value', py_isqrt(x)), prop=PROP, skip_this=False,
                        unwind=t.bits // 2 + 3, solvers=('kissat', 'cadical') if heavy else ('minisat',), timeout=1500 if heavy else 300))
    # 64-bit: bounded stand-in
    for ts in ['u64', 'i64']:
        t = T(ts)
        sname = 'vp_sqrt_' + ts
        src.append(shim(ts, sname, [(ts, 'a')], 'return cnl::sqrt(a);'))
        w = 2 * 64 + 4
        jobs.append(Job('%s.L0.sqrt.%s.bounded' % (PROP, ts), kname, r'^auto cnl::sqrt<%s>\(%s const&\)$' % (dem(ts), dem(ts)),
                        isqrt_contract(t, t, '(*a0)', extra_req=['%s < %s' % (wval('(*a0)', t, w), wconst(2 ** 24, w))]),
                        shim=sname, shim_types=[ts], oracle=lambda x: None if not 0 <= x < 2 ** 24 else ('value', py_isqrt(x)),
                        prop=PROP, skip_this=False, unwind=35, klass='bounded', bound='inputs restricted to x < 2^24 (64-bit instantiation)',
                        timeout=600, solvers=('cadical', 'kissat')))
    # elastic_integer overload
    for (D, n) in [(7, 'i32'), (15, 'i32'), (16, 'u32')] + ([(31, 'i32')] if thorough else []):
        N = T(n)
        A = 'cnl::elastic_integer<%d, %s>' % (D, cxx(n))
        rep = N if D <= N.digits else CT.ty(('i' if N.signed else 'u') + '64')
        tag = 'el_%d%s' % (D, n)
        sname = 'vp_sqrt_' + tag
        src.append(shim('auto', sname, [(short_of(rep), 'a')], 'return cnl::_impl::to_rep(cnl::sqrt(cnl::_impl::from_rep<%s>(a)));' % A))
        src.append(fact_shim('dig_' + tag, 'cnl::digits_v<decltype(cnl::sqrt(%s{}))>' % A))
        jobs.append(fact_job(PROP, kname, 'dig_' + tag, (D + 1) // 2, 'sqrt(%s) has the halved digit count (Digits+1)/2' % A))

        def c_el(rep, D):
            def gen(m, fi, tr):
                w = 2 * rep.bits + 4
                x = wval(arg_rep(tr, fi, 0), rep, w)
                c = isqrt_contract(rep, rep, arg_rep(tr, fi, 0), extra_req=['%s <= %s' % (x, wconst(2 ** D - 1, w))], digits=(D + 1) // 2)
                return c
            return gen
        heavy = D > 16
        jobs.append(Job('%s.L1.sqrt.%s' % (PROP, tag), kname, r'^auto cnl::sqrt<%d, %s>\(cnl::_impl::wrapper<' % (D, dem(n)),
                        c_el(rep, D), replace=[(P_LEAF, c_leaf)], shim=sname, shim_types=[short_of(rep)],
                        oracle=(lambda D: lambda x: None if not 0 <= x <= 2 ** D - 1 else ('value', py_isqrt(x)))(D),
                        prop=PROP, skip_this=False, solvers=('kissat', 'cadical') if heavy else ('minisat',), timeout=900 if heavy else 300))
    # scaled_integer overload, even exponents
    for (r, e) in [('i16', -8), ('u16', 4), ('i32', -60), ('u8', 60)] + ([('i32', -16), ('u32', 0)] if thorough else []):
        Rp = T(r)
        A = 'cnl::scaled_integer<%s, cnl::power<%d>>' % (cxx(r), e)
        tag = 'sc_%s_%s' % (r, str(e).replace('-', 'm'))
        sname = 'vp_sqrt_' + tag
        src.append(shim('auto', sname, [(r, 'a')], 'return cnl::_impl::to_rep(cnl::sqrt(cnl::_impl::from_rep<%s>(a)));' % A))
        src.append(fact_shim('exp_' + tag, 'cnl::_impl::tag_of_t<decltype(cnl::sqrt(%s{}))>::exponent' % A))
        jobs.append(fact_job(PROP, kname, 'exp_' + tag, e // 2, 'sqrt(%s) has half the exponent' % A))
        # the result rep type is Rep itself (result_type = scaled_integer<Rep, ...>): r^2 <= x < (r + one unit)^2 on the reps
        jobs.append(Job('%s.L1.sqrt.%s' % (PROP, tag), kname,
                        r'^auto cnl::sqrt<%s, %d, 2>\(cnl::_impl::wrapper<' % (dem(r), e),
                        (lambda Rp: lambda m, fi, tr: isqrt_contract(Rp, Rp, arg_rep(tr, fi, 0)))(Rp),
                        replace=[(P_LEAF, c_leaf)], shim=sname, shim_types=[r],
                        oracle=lambda x: None if x < 0 else ('value', py_isqrt(x)), prop=PROP, skip_this=False,
                        solvers=('kissat', 'cadical') if Rp.bits >= 32 else ('minisat',), timeout=900 if Rp.bits >= 32 else 300))
    k = Kernel(kname, ''.join(src), [], 'sqrt')
    meta = {'instantiations': len(jobs),
            'explanation': 'floor-sqrt characterisation r*r <= x < (r+1)^2 in a 2N+2-bit vector; loops closed by complete unwinding (unwinding assertions = termination for every input)',
            'not_applicable_parts': ['64/128-bit and wide reps: monolithic unwinding with 64-bit squaring is beyond the SAT back ends; the inductive invariant is nonlinear. '
                                     'A bounded stand-in (x < 2^24) is run for the 64-bit instantiations and reported under bounded_checks, not as proof'],
            'assumptions': []}
    return {'kernels': [k], 'jobs': jobs, 'meta': meta}

"""C13 -- to_chars never writes outside the caller's buffer and reports failure cleanly.

Functions under contract:
  L0  cnl::_impl::to_chars_natural<T>(char*, char*, T const&, int)   recursive; proved inductively (--enforce-contract-rec):
        requires ptr <= last inside one buffer, base == 10, value >= 0
        assigns only [ptr, last); ensures ret == NULL or ptr < ret <= last; bytes at and after ret unchanged
  L1  cnl::to_chars<T>(char*, char*, T const&, int)  (integers)       L0 replaced by its contract
        assigns only [first, last)
        ensures ec == 0 ==> first < ptr <= last ; ec != 0 ==> ec == value_too_large && ptr == last ; bytes at index >= ptr-first unchanged
        buffer lengths 0 .. capacity+2 (symbolic), every value of T; all pointer / bounds obligations; CNL_ASSERTs
  L2  cnl::to_chars_static<10, T>(T const&)                           L1 replaced by contract + 'capacity suffices' proved with L1 inlined and unwound
  L1s cnl::to_chars<Rep, E, 2>(char*, char*, scaled_integer const&, int)  whole function, callees inlined, loops unwound
        (descale, solve_fixed/solve_scientific, fill) -- bounded in the sense that the unwinding bound is derived from the
        instantiation and asserted (unwinding assertions): complete when they pass.
'Writes only inside [first,last)' is the DFCC frame obligation for assigns(__CPROVER_object_upto(first, last-first)).
'Writes exactly [first,p)': a ghost symbolic index k with p-first <= k < last-first keeps its old byte.
"""
from vplib import cxxtypes as CT
from vplib.speclib import KERNEL_HEAD, T, cxx, dem, Contract, Job, Kernel, shim, short_of

PROP = 'C13'
EOVERFLOW = 75          # std::errc::value_too_large


def cap10(t):
    import math
    return (1 if t.signed else 0) + int(t.digits * math.log(2) / math.log(10)) + 1


def harness_buf(cname, t, nmax, by_ref=True, base_arg=True, extra_args='', base=10):
    """custom harness: buffer object with symbolic usable length n in [0, nmax]; inputs are globals for the trace"""
    ct = t.ctype

    def gen(fi, tr):
        decl = ('uint8_t vp_buf[%d];\nuint64_t vp_in1; /* buffer length */\n%s vp_in2; /* value */\nuint64_t vp_k; /* ghost index */\n'
                '#define VP_ARG_VALUE ((__CPROVER_bitvector[140])(%s)vp_in2)\n' % (nmax + 1, ct, t.sctype))
        body = ['void vp_h(void)', '{',
                '  { uint64_t t; vp_in1 = t; } __CPROVER_assume(vp_in1 <= %d);' % nmax,
                '  { %s t; vp_in2 = t; }' % ct,
                '  { uint64_t t; vp_k = t; } __CPROVER_assume(vp_k < %d);' % (nmax + 1),       # ghost index: NOT tied to the length (an assume vp_k < n silently excluded the empty buffer: seed C13_2)
                '  /*PRE*/',
                '  uint8_t* first = vp_buf;',
                '  uint8_t* last = vp_buf + vp_in1;',
                '  %s(first, last, %s%s);' % (fi['cname'], '&vp_in2' if by_ref else 'vp_in2', (', %d' % base) if base_arg else ''),
                '}']
        return decl, '\n'.join(body)
    return gen


def natural_contract(t):
    v = '((%s)(*a2))' % t.sctype
    n = '((uint64_t)(a1 - a0))'
    return Contract(
        requires=['__CPROVER_same_object(a0, a1)', 'a0 <= a1', 'a0 != 0', '__CPROVER_r_ok(a0, %s)' % n, 'a3 == 10', '%s >= 0' % v],
        assigns=['__CPROVER_object_upto(a0, %s)' % n],
        ensures=['$RET == 0 || (__CPROVER_same_object($RET, a0) && a0 < $RET && $RET <= a1)',
                 '($RET != 0 && vp_k < %s && vp_k >= (uint64_t)($RET - a0)) ==> a0[vp_k] == __CPROVER_old(a0[vp_k])' % n],
        note='digits emitted recursively with an end-of-buffer check: stays inside [ptr,last), returns NULL or a pointer in (ptr,last]')


def tochars_contract(t, base=10):
    n = '((uint64_t)(__CPROVER_POINTER_OFFSET(a1) - __CPROVER_POINTER_OFFSET(a0)))'
    ptr, ec = '__CPROVER_return_value.f0', '__CPROVER_return_value.f1'
    off = lambda p: '__CPROVER_POINTER_OFFSET(%s)' % p
    return Contract(
        requires=['__CPROVER_same_object(a0, a1)', '%s <= %s' % (off('a0'), off('a1')), 'a3 == %d' % base],
        assigns=['__CPROVER_object_upto(a0, %s)' % n],
        ensures=['%s == 0 ==> (__CPROVER_same_object(%s, a0) && %s < %s && %s <= %s)' % (ec, ptr, off('a0'), off(ptr), off(ptr), off('a1')),
                 '%s != 0 ==> (%s == %d && %s == a1)' % (ec, ec, EOVERFLOW, ptr),
                 '(%s == 0 && vp_k < %s && vp_k >= (uint64_t)(%s - %s)) ==> a0[vp_k] == __CPROVER_old(a0[vp_k])' % (ec, n, off(ptr), off('a0'))],
        note='statement of C13 for to_chars(first,last,value)')


def static_contract(cap):
    """to_chars_static_result<cap> = { char chars[cap+1]; int length; }: returned in registers when <= 16 bytes, else through sret"""
    off = (cap + 1 + 3) // 4 * 4
    size = off + 4

    def gen(m, fi, tr):
        if size > 16:
            ln = '((int32_t)(*a0).f1)'
            assigns = ['*a0']
        elif size <= 8:
            ln = '((int32_t)(uint32_t)(((uint64_t)__CPROVER_return_value) >> %d))' % (off * 8)
            assigns = []
        else:
            fld, sh = ('f0', off * 8) if off < 8 else ('f1', (off - 8) * 8)
            ln = '((int32_t)(uint32_t)(((uint64_t)__CPROVER_return_value.%s) >> %d))' % (fld, sh)
            assigns = []
        return Contract(requires=[], assigns=assigns, ensures=['%s > 0' % ln, '%s <= %d' % (ln, cap)],
                        note='the fixed capacity suffices for every value: 0 < length <= capacity (the internal CNL_ASSERTs on ptr/ec are obligations too)')
    return gen


def py_digits(v):
    return len(str(abs(v))) + (1 if v < 0 else 0)


def plan(tier):
    thorough = tier == 'thorough'
    src = [KERNEL_HEAD]
    jobs = []
    kname = 'C13'
    ints = ['i8', 'u8', 'i16', 'u16', 'i32', 'u32']      # int64_t / uint64_t: 20 recursion levels need 24+ GB (out of memory under load), not claimed
    for ts in ints:
        t = T(ts)
        cap = cap10(t)
        nmax = cap + 2
        # native shim: returns (ptr-first)*256 + ec, with guard bytes around the buffer checked for writes
        sname = 'vp_tc_' + ts
        src.append('extern "C" long %s(std::uint64_t n, %s v) { char buf[64]; for (auto& c : buf) c = 0x55; char* first = buf + 8; '
                   'auto r = cnl::to_chars(first, first + n, v); for (int i = 0; i < 64; ++i) if ((i < 8 || i >= 8 + int(n)) && buf[i] != 0x55) return -1; '
                   'bool ok = (r.ec == std::errc{}) ? (r.ptr > first && r.ptr <= first + n) : (r.ec == std::errc::value_too_large && r.ptr == first + n); return ok ? 1 : 0; }\n'
                   % (sname, cxx(ts)))
        orc = (lambda nmax: lambda n, v: None if n > nmax else ('value', 1))(nmax)
        # L1
        jobs.append(Job('%s.L1.to_chars.%s' % (PROP, ts), kname,
                        r'^auto cnl::to_chars<%s>\(char\*, char\*, %s const&, int\)$' % (dem(ts), dem(ts)),
                        tochars_contract(t), harness=harness_buf(None, t, nmax), prop=PROP, timeout=600, skip_this=False, inputs=['vp_in1', 'vp_in2'],
                        shim=sname, shim_types=['u64', ts], oracle=orc, layer=1, unwind=cap + 3, object_bits=14 if t.bits >= 64 else 12, mem_gb=24,
                        solvers=('cadical', 'kissat') if t.bits >= 64 else ('minisat',)))
        # L2: to_chars_static always succeeds
        s2 = 'vp_tcs_' + ts
        src.append('extern "C" int %s(%s v) { auto r = cnl::to_chars_static(v); return r.length; }\n' % (s2, cxx(ts)))
        if t.bits <= 32 or thorough:
            jobs.append(Job('%s.L2.to_chars_static.%s' % (PROP, ts), kname,
                            r'^auto cnl::to_chars_static<10, %s>\(%s const&\)$' % (dem(ts), dem(ts)),
                            static_contract(cap), prop=PROP, timeout=900, skip_this=False, unwind=cap + 4,
                            defines={'VP_ARG_VALUE': '((__CPROVER_bitvector[140])(%s)vp_in%d)' % (t.sctype, 1 if ((cap + 1 + 3) // 4 * 4 + 4) > 16 else 0)},
                            solvers=('cadical', 'kissat') if t.bits >= 32 else ('minisat',),
                            shim=s2, shim_types=[ts], oracle=lambda v: ('value', py_digits(v)), layer=2,
                            cex_filter=lambda leaves: leaves[-1:]))
    # other bases: same function, more (base 2) or fewer (base 16) digits than the decimal capacity
    for ts, base in [('i8', 2), ('u8', 16)] + ([('u16', 2), ('i16', 16), ('i8', 36)] if thorough else []):
        t = T(ts)
        nd = 1
        m = max(abs(t.min), t.max)
        while m >= base:
            m //= base
            nd += 1
        capb = nd + (1 if t.signed else 0)
        nmax = capb + 2
        sname = 'vp_tc_%s_b%d' % (ts, base)
        src.append('extern "C" long %s(std::uint64_t n, %s v) { char buf[64]; for (auto& c : buf) c = 0x55; char* first = buf + 8; '
                   'auto r = cnl::to_chars(first, first + n, v, %d); for (int i = 0; i < 64; ++i) if ((i < 8 || i >= 8 + int(n)) && buf[i] != 0x55) return -1; '
                   'bool ok = (r.ec == std::errc{}) ? (r.ptr > first && r.ptr <= first + n) : (r.ec == std::errc::value_too_large && r.ptr == first + n); return ok ? 1 : 0; }\n'
                   % (sname, cxx(ts), base))
        orc = (lambda nmax: lambda n, v: None if n > nmax else ('value', 1))(nmax)
        jobs.append(Job('%s.L1.to_chars.%s_b%d' % (PROP, ts, base), kname,
                        r'^auto cnl::to_chars<%s>\(char\*, char\*, %s const&, int\)$' % (dem(ts), dem(ts)),
                        tochars_contract(t, base), harness=harness_buf(None, t, nmax, base=base), prop=PROP, timeout=600, skip_this=False, inputs=['vp_in1', 'vp_in2'],
                        shim=sname, shim_types=['u64', ts], oracle=orc, layer=1, unwind=capb + 3, mem_gb=24, note='base %d' % base))
    k = Kernel(kname, ''.join(src), [], 'to_chars')
    meta = {'instantiations': len(jobs),
            'explanation': 'memory-safety as DFCC frame + pointer obligations over a symbolic buffer length; recursion closed inductively',
            'not_applicable_parts': ['scaled_integer / wide to_chars: descale loops (see DESIGN.md C13) -- attempted separately, not claimed here',
                                     'operator<< through iostreams'],
            'assumptions': ['bases 10, 2 and 16 (quick), 36 in the thorough tier; other bases share the same code path with a different divisor']}
    return {'kernels': [k], 'jobs': jobs, 'meta': meta}

"""C15 -- literals, parsing and constant-driven deduction: run-time parse() only, BOUNDED.

What a contract can reach of C15 is the run-time algorithm cnl::_impl::parse<T>(char const*) that the literal operators evaluate at
compile time (strlen, scan_string, scan_base, scan_msb, parse_string and its chunk lambdas).  Its loops depend on the token length, so
this is a bounded stand-in: complete unwinding for well-formed tokens of at most L characters, per token class:
   decimal  [-]?([1-9][0-9]{0,L-1} | 0)      hexadecimal [-]?0x[0-9a-fA-F]{1,L}     octal [-]?0[0-7]{1,L}     binary [-]?0b[01]{1,L}
Contract: requires the buffer holds a well-formed token of the class (C predicate over the bytes); ensures ret == value_of(token)
(Horner value written out over the bytes, in a wide vector).  parse<T> only compiles for T of at least 64 bits (int64_t here).
Everything else in C15 (operator""_c/_cnl/_wide on a token, constant<>-driven deduction, CTAD, make_* on constants) exists only at compile
time: clang folds it, the IR contains the resulting constant, there is no function and no input -- not applicable.
Reported as bounded checks (coverage.bounded_checks), never as discharged proof obligations.
"""
from vplib import cxxtypes as CT
from vplib.speclib import KERNEL_HEAD, T, cxx, W, wconst, Contract, Job, Kernel

PROP = 'C15'


def harness(kind, L, negative):
    """harness-owned token buffer, havoced; the class predicate is assumed on it and the denoted value vp_val is computed by
    straight-line spec code (Horner in an 80-bit vector) before the call"""
    w = 80
    pre = {'dec': '', 'hex': '0x', 'oct': '0', 'bin': '0b'}[kind]
    base = {'dec': 10, 'hex': 16, 'oct': 8, 'bin': 2}[kind]
    lead = ('-' if negative else '') + pre
    off = len(lead)
    N = off + L + 2

    def isdigit(e):
        if kind == 'dec':
            return '(%s >= 48 && %s <= 57)' % (e, e)
        if kind == 'oct':
            return '(%s >= 48 && %s <= 55)' % (e, e)
        if kind == 'bin':
            return '(%s == 48 || %s == 49)' % (e, e)
        return '((%s >= 48 && %s <= 57) || (%s >= 97 && %s <= 102) || (%s >= 65 && %s <= 70))' % (e, e, e, e, e, e)

    def dval(e):
        if kind != 'hex':
            return '(%s - 48)' % e
        return '(%s <= 57 ? %s - 48 : (%s >= 97 ? %s - 87 : %s - 55))' % (e, e, e, e, e)

    def gen(fi, tr):
        assert N <= 24
        decl = 'uint8_t vp_buf[25];\nuint64_t vp_in1, vp_in2, vp_in3; /* the token, 8 characters per word, little endian */\nuint64_t vp_len;\n%s vp_val;\n' % W(w)
        b = ['void vp_h(void)', '{', '  { uint64_t t; vp_len = t; }', '  { uint64_t t1, t2, t3; vp_in1 = t1; vp_in2 = t2; vp_in3 = t3; }']
        b += ['  vp_buf[%d] = (uint8_t)(vp_in%d >> %d);' % (i, i // 8 + 1, 8 * (i % 8)) for i in range(24)]
        b.append('  vp_buf[24] = 0;')
        b.append('  __CPROVER_assume(vp_len >= 1 && vp_len <= %d);' % L)
        for i, ch in enumerate(lead):
            b.append('  __CPROVER_assume(vp_buf[%d] == %d);' % (i, ord(ch)))
        for i in range(L):
            b.append('  __CPROVER_assume(!(%d < vp_len) || %s);' % (i, isdigit('vp_buf[%d]' % (off + i))))
        if kind == 'dec':
            b.append('  __CPROVER_assume(vp_len == 1 || vp_buf[%d] != 48);' % off)      # a leading zero would make it an octal token
        b.append('  __CPROVER_assume(vp_buf[%d + vp_len] == 0);' % off)
        b.append('  vp_val = 0;')
        for i in range(L):
            b.append('  if (%d < vp_len) vp_val = vp_val * %d + (%s)%s;' % (i, base, W(w), dval('vp_buf[%d]' % (off + i))))
        if negative:
            b.append('  vp_val = -vp_val;')
        b += ['  /*PRE*/', '  int64_t vp_r = (int64_t)%s(vp_buf);' % fi['cname'],
              '#ifdef VP_CANARY', '  __CPROVER_assert(0, "ensures clause (vacuity canary): false");', '#else',
              '  __CPROVER_assert((%s)vp_r == vp_val, "ensures clause: parse() returns exactly the value the token denotes");' % W(w), '#endif', '}']
        return decl, '\n'.join(b)
    return gen, w


def oracle(a, b, c):
    raw = b''.join(int(x).to_bytes(8, 'little') for x in (a, b, c))
    tok = raw.split(b'\0')[0].decode('latin-1')
    neg = tok.startswith('-')
    t = tok[1:] if tok[:1] in '+-' else tok
    try:
        if t[:2] in ('0x', '0X'):
            v = int(t[2:], 16)
        elif t[:2] in ('0b', '0B'):
            v = int(t[2:], 2)
        elif len(t) > 1 and t[0] == '0':
            v = int(t[1:], 8)
        else:
            v = int(t, 10)
    except ValueError:
        return None
    return ('value', -v if neg else v)


def plan(tier):
    thorough = tier == 'thorough'
    src = [KERNEL_HEAD, '#include <cstring>\nextern "C" std::int64_t vp_parse_tok(std::uint64_t a, std::uint64_t b, std::uint64_t c) { char s[25]; std::memcpy(s, &a, 8); std::memcpy(s + 8, &b, 8); '
           'std::memcpy(s + 16, &c, 8); s[24] = 0; return cnl::_impl::parse<std::int64_t>(s); }\n']
    jobs = []
    kname = 'C15'
    classes = [('dec', 6, False), ('dec', 6, True), ('hex', 5, False), ('hex', 5, True), ('oct', 6, False), ('oct', 5, True), ('bin', 8, False), ('bin', 8, True)]
    if thorough:
        classes = [('dec', 10, False), ('dec', 10, True), ('hex', 8, False), ('hex', 8, True), ('oct', 10, False), ('oct', 10, True), ('bin', 16, False), ('bin', 16, True)]
    for kind, L, neg in classes:
        h, w = harness(kind, L, neg)
        c = Contract(requires=['a0 == vp_buf'],
                     ensures=['((%s)(int64_t)$RET) == vp_val' % W(w)], assigns=[],
                     note='parse() returns exactly the value the %s token denotes (tokens of up to %d digits; the token predicate is assumed on the harness-owned buffer)' % (kind, L))
        jobs.append(Job('%s.parse.%s%s.L%d' % (PROP, 'neg' if neg else '', kind, L), kname, r'^auto cnl::_impl::parse<long>\(char const\*\)$', c,
                        harness=h, plain=True, prop=PROP, skip_this=False, inputs=['vp_in1', 'vp_in2', 'vp_in3'], shim='vp_parse_tok', shim_types=['u64', 'u64', 'u64'], oracle=oracle, unwind=L + 6, timeout=1500, klass='bounded',
                        unwindset=[(r'^auto cnl::_impl::parse_string<long>\(char const\*, int, bool, int, int\)$', 0, 2)],
                        bound='well-formed %s%s tokens of at most %d digits (complete unwinding of the token-length loops for that class; chunk loop runs at most once)' % ('negative ' if neg else '', kind, L),
                        solvers=('cadical', 'kissat'), object_bits=13, mem_gb=24, layer=0))
    k = Kernel(kname, ''.join(src), [], 'run-time parse')
    meta = {'instantiations': len(jobs),
            'explanation': 'BOUNDED stand-in: cnl::_impl::parse<int64_t>(char const*) returns the value the token denotes for every well-formed token of bounded length per class; '
                           'nothing here is counted as a discharged proof obligation. The compile-time parts of C15 (literal operators, constant<>-driven deduction, CTAD) are not applicable: clang folds them and no function remains.',
            'not_applicable_parts': ['operator""_c / _cnl / _cnl2 / _wide, constant<>-driven digit/exponent deduction, CTAD, make_* on constants: compile-time only',
                                     'digit separators and fractional parts (_cnl with radix point)', 'tokens longer than the bound (chunk boundaries at 18 decimal / 15 hex / 21 octal / 63 binary digits are NOT crossed)'],
            'assumptions': []}
    return {'kernels': [k], 'jobs': jobs, 'meta': meta}

"""C07 -- checked arithmetic is total: no UB, no crash, no internal 'unreachable' on any operand.

Same extraction and the same functions as C06, but here the whole tagged operator
(cnl::custom_operator<Op, op_value<L,Tag>, op_value<R,Tag>>::operator()) is verified with every callee
INLINED (is_overflow predicates, builtin path, polarity guess, reactions, the plain operator), so every
abstract-machine UB flag of the composed operation is an obligation of one proof:
  UB.signed-overflow (nsw), UB.shift-count, UB.div-zero, UB.div-overflow (MIN / -1), UB.float-to-int-range,
  UB.clz-of-zero, UB.unreachable (IR unreachable / CNL_ASSERT / 'CNL internal error'), pointer checks.
The precondition excludes exactly what the statement excludes: a zero divisor and a negative shift count.
Reaching the intended signal (trap / throw with 'positive overflow' / 'negative overflow') is NOT a failure here.
Both detection paths; debug flavour (CNL_ASSERT -> abort(msg)) and release flavour (-DNDEBUG: unreachable).
"""
from vplib.speclib import KERNEL_HEAD, Contract, Job, Kernel, shim
from specs import C06

PROP = 'C07'

ALLOW = {'VP_TRAP_POS_OK': '1', 'VP_TRAP_NEG_OK': '1', 'VP_THROW_POS_OK': '1', 'VP_THROW_NEG_OK': '1'}


def instances(thorough):
    P = C06
    out = []
    pairs = (P.SAME + P.MIXW + P.MIXS + P.WIDE) if thorough else P.QUICK + [('u32', 'i32'), ('i64', 'u64')]
    for op in ('add', 'subtract', 'multiply', 'divide'):
        for p in pairs:
            out.append(P.OpInst(op, p))
    for t in (P.UNARY + ['i128']) if thorough else ['i8', 'u8', 'i32', 'u32', 'i64', 'u64']:
        out.append(P.OpInst('minus', [t]))
    for p in P.SHIFT if thorough else P.SHIFT[:6]:
        out.append(P.OpInst('shift_left', p))
    for s, d in P.CONV if thorough else P.CONV[:9]:
        out.append(P.OpInst('convert', [s], dest=d))
    return out


def total_oracle(oi):
    def o(*a):
        if not oi.py_domain(*a):
            return None
        return ('defined',)
    return o


def plan(tier):
    thorough = tier == 'thorough'
    cfgs = {'clang': [], 'gcc': ['-U__clang__'], 'clang_ndebug': ['-DNDEBUG'], 'gcc_ndebug': ['-U__clang__', '-DNDEBUG']}
    src = {c: [KERNEL_HEAD] for c in cfgs}
    jobs = []
    n = 0
    for oi in instances(thorough):
        for cfg in cfgs:
            if cfg.endswith('ndebug') and not (thorough or oi.op in ('multiply', 'shift_left', 'add')):
                continue
            tags = ('sat', 'trap', 'throw') if (thorough or cfg in ('clang', 'gcc')) else ('sat',)
            for tag in tags:
                sname = 'vp_%s_%s_%s' % (tag, oi.op, oi.tag)
                src[cfg].append(shim(C06._ret_short(oi), sname, oi.params(), C06.tagged_call(oi, tag)))
                heavy = oi.op in ('multiply', 'divide') and max(t.bits for t in oi.ts) >= 32
                if heavy and oi.op == 'multiply' and cfg.startswith('clang'):
                    # portable multiply predicate vs the final mul nsw at >= 32 bits: no SAT answer within the budgets (see C06 hardness).
                    # What IS within reach: the two overflow predicates on their own are total (their divisions max()/rhs, lowest()/rhs
                    # never divide by zero or overflow) -- no multiplier equivalence involved; one job per predicate, once per configuration
                    if tag == 'sat':
                        for pol in ('pos', 'neg'):
                            s2 = 'vp_isov_%s_%s_%s' % (oi.op, pol, oi.tag)
                            src[cfg].append(shim('bool', s2, oi.params(), 'return %s;' % oi.callexpr(
                                'cnl::_impl::is_overflow<cnl::_impl::%s, %s>{}' % (C06.OPCLS[oi.op], C06.POL[pol]))))
                            jobs.append(Job('%s.%s.%s.predicate_%s.%s' % (PROP, cfg, oi.op, pol, oi.tag), 'C07_' + cfg, C06.isov_pattern(oi, pol),
                                            Contract(requires=[], ensures=[], assigns=[], note='the overflow test itself is total (every UB obligation inside the predicate)'),
                                            shim=s2, shim_types=oi.types, oracle=total_oracle(oi), prop=PROP, solvers=('minisat', 'cadical'), timeout=300, layer=0))
                            n += 1
                    continue
                jobs.append(Job('%s.%s.%s.%s.%s' % (PROP, cfg, oi.op, tag, oi.tag), 'C07_' + cfg,
                                C06.custop_pattern(oi, tag),
                                Contract(requires=oi.requires(C06.ptr_args(oi)), ensures=[], assigns=[],
                                         note='total: defined for every operand except zero divisor / negative shift count'),
                                defines=ALLOW, shim=sname, shim_types=oi.types, oracle=total_oracle(oi), prop=PROP,
                                solvers=('minisat',) if not heavy else ('cadical', 'kissat'),
                                timeout=120 if not heavy else 2400, layer=1))
                n += 1
    kernels = [Kernel('C07_' + c, ''.join(src[c]), f, c) for c, f in cfgs.items()]
    meta = {'instantiations': n,
            'explanation': 'whole tagged operator verified with all callees inlined; every UB flag of the clang -O0 IR is a named obligation',
            'not_applicable_parts': ['portable-path multiply with an operand of 32 bits or more: the WHOLE operator ("predicates say no overflow => mul nsw defined") is a multiplier/divider equivalence beyond the SAT budgets; only the totality of the two predicates themselves is proved for these', 'floating-point sources of convert are covered by C06/C09 float jobs only'],
            'assumptions': []}
    return {'kernels': kernels, 'jobs': jobs, 'meta': meta}

"""C20 -- exp2 on scaled_integer is accurate to one unit in the last place (8/16-bit representations).

Function under contract: cnl::exp2<Rep, E>(scaled_integer<Rep, power<E>>), whole function inlined (floor, fractional, exp2m1_0to1,
evaluate_polynomial with its seven safe_multiply steps, the final shift/add).
The true 2^x is transcendental, so the only contract-level spec is extensional: a table T[rep] = floor(2^(rep*2^E) * 2^-E) computed
here with exact integer arithmetic (integer 2^-E-th root of a power of two, no floating point), embedded as a const array; the
postcondition is |ret - T[rep]| <= 1 for every input whose result is representable, and ret == T[rep] for integral x.
That is a proof over ALL inputs of the instantiation (the table has one entry per input), not a sample.
The <numbers> constants are closed compile-time terms (no inputs, no function): not applicable.  32-bit reps: not applicable (2^32 entries).
"""
from vplib import cxxtypes as CT
from vplib.speclib import KERNEL_HEAD, T, cxx, dem, Contract, Job, Kernel, shim

PROP = 'C20'


def iroot_pow2(n, q):
    """floor(2^(n/q)) for integers n, q > 0 (n may be negative) by exact integer arithmetic"""
    if n < 0:
        return 0
    N = 1 << n
    lo, hi = 0, 1 << (n // q + 1)
    while lo < hi:
        mid = (lo + hi + 1) // 2
        if mid ** q <= N:
            lo = mid
        else:
            hi = mid - 1
    return lo


def table(t, E):
    f = -E
    q = 1 << f
    out = []
    for rep in range(t.min, t.max + 1):
        n = rep + f * q
        if n // q + 1 > t.digits + 1:
            out.append(-1)
            continue
        v = iroot_pow2(n, q)
        out.append(v if v <= t.max else -1)
    return out


def plan(tier):
    thorough = tier == 'thorough'
    src = [KERNEL_HEAD]
    jobs = []
    kname = 'C20'
    inst = [('i8', -3), ('u8', -4), ('i8', -5)] + ([('i16', -8), ('u16', -8), ('i16', -12)] if thorough else [('i16', -8)])
    for (r, E) in inst:
        t = T(r)
        A = 'cnl::scaled_integer<%s, cnl::power<%d>>' % (cxx(r), E)
        tag = '%s_%s' % (r, str(E).replace('-', 'm'))
        sname = 'vp_exp2_' + tag
        src.append(shim(r, sname, [(r, 'a')], 'return cnl::_impl::to_rep(cnl::exp2(cnl::_impl::from_rep<%s>(a)));' % A))
        tb = table(t, E)
        tname = 'vp_T_' + tag
        extra = 'static const int32_t %s[%d] = {%s};\n' % (tname, len(tb), ','.join(str(x) for x in tb))
        idx = '((int)(%s)a0 - (%d))' % (t.sctype, t.min)
        ret = '((int)(%s)$RET)' % t.sctype
        frac_mask = (1 << -E) - 1
        c = Contract(requires=['%s[%s] >= 0' % (tname, idx)],
                     ensures=['%s - %s[%s] <= 1 && %s[%s] - %s <= 1' % (ret, tname, idx, tname, idx, ret),
                              '(((int)(%s)a0 & %d) == 0) ==> %s == %s[%s]' % (t.sctype, frac_mask, ret, tname, idx)],
                     assigns=[], note='|rep(exp2(x)) - floor(2^x * 2^-E)| <= 1 against the exact table; exact for integral x')

        def orc(tb, t):
            def o(a):
                v = tb[a - t.min]
                return None if v < 0 else ('within1', v)
            return o
        heavy = t.bits >= 16
        jobs.append(Job('%s.exp2.%s' % (PROP, tag), kname, r'^cnl::_impl::wrapper<%s, cnl::power<%d, 2> > cnl::exp2<%s, %d>\(' % (dem(r), E, dem(r), E),
                        c, extra_c=extra, shim=sname, shim_types=[r], oracle=orc(tb, t), prop=PROP, skip_this=False,
                        timeout=2400 if heavy else 600, solvers=('kissat', 'cadical') if heavy else ('minisat',), layer=1))
    k = Kernel(kname, ''.join(src), [], 'exp2')
    meta = {'instantiations': len(jobs),
            'explanation': 'extensional table specification computed with exact integer arithmetic; all inputs of each instantiation',
            'trusted_base': ['the table generator specs/C20.py:iroot_pow2 (exact integer q-th root by bisection)'],
            'not_applicable_parts': ['32-bit representations (2^32 table entries)', 'the <numbers> constants pi, e, ...: closed compile-time terms with no inputs; checking them is a finite evaluation, not a contract'],
            'assumptions': []}
    return {'kernels': [k], 'jobs': jobs, 'meta': meta}

"""C10 -- wide_integer behaves as a two's-complement integer of its storage width (linear operations).

wide_integer<Digits, Narrowest> beyond 128 bits is wrapper<uintwide_t<W, limb, void, signed>, wide_tag<..>> with W/limb-bits limbs.
Functions under contract: the PUBLIC operators on wide_integer (cnl::_impl::operator+, -, unary -, ~, &, |, ^, <<, >>, ==, <), whole
function inlined down to the vendored uintwide_t member functions (operator+=, operator-=, negate, <<=, >>=, compare, std::copy/fill
loops), every limb loop closed by complete unwinding (unwinding assertions on: complete for the instantiation).
Spec: the limbs concatenated into one W-bit vector V(x) = sum limb[i] << (bits*i); the result's V equals the W-bit two's-complement
operation on the operands' V (arithmetic >> for signed; shift counts: one job per constant count of a boundary-rich set, all values).  'Independent of the split into limbs':
the same contracts are proved for 16- and 32-bit limbs of one width (thorough).
NOT claimed (beyond every SAT back end here, measured in the design probe): multi-limb *, /, %, decimal text, float conversion.
"""
from vplib import cxxtypes as CT
import re

from vplib.speclib import KERNEL_HEAD, T, cxx, dem, Contract, Job, Kernel

PROP = 'C10'


def limb_path(tr, t):
    """path from a wide_integer wrapper struct down to its limb array, and (n limbs, limb bits)"""
    path = ''
    while True:
        rt = tr.mod.resolve(t)
        if rt.k == 'struct' and len(rt.a) >= 1:
            path += '.f0'
            t = rt.a[0]
        elif rt.k == 'array':
            return path, rt.a, tr.mod.resolve(rt.b).a
        else:
            raise ValueError('no limb array in ' + rt.key())


def V(tr, fi, k, Wbits, old=False):
    t = tr.mod.resolve(fi['param_t'][k]).a
    path, n, lb = limb_path(tr, t)
    U = 'unsigned __CPROVER_bitvector[%d]' % Wbits
    limb = (lambda e: '__CPROVER_old(%s)' % e) if old else (lambda e: e)       # history variables are tracked per limb
    terms = ['(((%s)%s) << %d)' % (U, limb('(*a%d)%s.a[%d]' % (k, path, i)), lb * i) for i in range(n)]
    return '(' + ' | '.join(terms) + ')', n * lb


def binop_contract(sym, signed):
    def gen(m, fi, tr):
        _, Wb = V(tr, fi, 1, 8)
        r, _ = V(tr, fi, 0, Wb)
        a, _ = V(tr, fi, 1, Wb)
        b, _ = V(tr, fi, 2, Wb)
        U = 'unsigned __CPROVER_bitvector[%d]' % Wb
        return Contract(requires=[], ensures=['%s == (%s)(%s %s %s)' % (r, U, a, sym, b)], assigns=['*a0'],
                        note='%d-bit two\'s-complement %s on the concatenated limbs' % (Wb, sym))
    return gen


def unop_contract(sym):
    def gen(m, fi, tr):
        _, Wb = V(tr, fi, 1, 8)
        r, _ = V(tr, fi, 0, Wb)
        a, _ = V(tr, fi, 1, Wb)
        U = 'unsigned __CPROVER_bitvector[%d]' % Wb
        return Contract(requires=[], ensures=['%s == (%s)(%s%s)' % (r, U, sym, a)], assigns=['*a0'])
    return gen


def shift_contract(left, signed, K=None):
    def gen(m, fi, tr):
        _, Wb = V(tr, fi, 1, 8)
        r, _ = V(tr, fi, 0, Wb)
        a, _ = V(tr, fi, 1, Wb)
        U = 'unsigned __CPROVER_bitvector[%d]' % Wb
        S = '__CPROVER_bitvector[%d]' % Wb
        cnt = '((int32_t)(*a2))'
        req = ['%s >= 0 && %s < %d' % (cnt, cnt, Wb)] if K is None else ['%s == %d' % (cnt, K)]
        if left:
            ex = '(%s)(%s << %s)' % (U, a, cnt)
        elif signed:
            ex = '(%s)(((%s)%s) >> %s)' % (U, S, a, cnt)
        else:
            ex = '(%s)(%s >> %s)' % (U, a, cnt)
        return Contract(requires=req, ensures=['%s == %s' % (r, ex)], assigns=['*a0'], note=('shift count symbolic in [0, %d)' % Wb) if K is None else 'shift by the constant %d' % K)
    return gen


def cmp_contract(sym, signed):
    def gen(m, fi, tr):
        _, Wb = V(tr, fi, 0, 8)
        a, _ = V(tr, fi, 0, Wb)
        b, _ = V(tr, fi, 1, Wb)
        S = ('__CPROVER_bitvector[%d]' if signed else 'unsigned __CPROVER_bitvector[%d]') % Wb
        return Contract(requires=[], ensures=['($RET != 0) == (((%s)%s) %s ((%s)%s))' % (S, a, sym, S, b)], assigns=[])
    return gen


def ctor_contract(src_t):
    def gen(m, fi, tr):
        _, Wb = V(tr, fi, 0, 8)
        r, _ = V(tr, fi, 0, Wb)
        U = 'unsigned __CPROVER_bitvector[%d]' % Wb
        S = '__CPROVER_bitvector[%d]' % Wb
        return Contract(requires=[], ensures=['%s == (%s)(%s)((%s)(*a1))' % (r, U, S if src_t.signed else U, src_t.sctype)], assigns=['*a0'],
                        note='construction from %s: the value, sign-/zero-extended to the storage width' % src_t.name)
    return gen


def conv_contract(dst_t):
    def gen(m, fi, tr):
        _, Wb = V(tr, fi, 0, 8)
        a, _ = V(tr, fi, 0, Wb)
        return Contract(requires=[], ensures=['(%s)$RET == (%s)%s' % (dst_t.sctype, dst_t.sctype, a)], assigns=[],
                        note='conversion to %s: the value reduced modulo 2^%d (low bits)' % (dst_t.name, dst_t.bits))
    return gen


def step_contract(sym):
    def gen(m, fi, tr):
        _, Wb = V(tr, fi, 0, 8)
        a, _ = V(tr, fi, 0, Wb)
        a0, _ = V(tr, fi, 0, Wb, old=True)
        U = 'unsigned __CPROVER_bitvector[%d]' % Wb
        return Contract(requires=[], ensures=['%s == (%s)(%s %s 1)' % (a, U, a0, sym), '$RET == a0'], assigns=['*a0'],
                        note='pre-%s: value %s 1 modulo 2^%d, returns the operand' % ('increment' if sym == '+' else 'decrement', sym, Wb))
    return gen


REF = r"""
// ---- bit-level reference for native replay only (never under contract): N-bit two's complement on a plain array of bits
#include <cstring>
namespace vpw {
    template<int NB> struct bits { unsigned char b[NB]; };
    template<class L, int N, class W> bits<N * int(sizeof(L)) * 8> load(W const& w)
    {
        static_assert(sizeof(W) == N * sizeof(L), "wide_integer storage is not N limbs");
        L l[N]; std::memcpy(l, &w, sizeof l);
        bits<N * int(sizeof(L)) * 8> r{};
        for (int i = 0; i < N; ++i) for (int j = 0; j < int(sizeof(L)) * 8; ++j) r.b[i * int(sizeof(L)) * 8 + j] = (l[i] >> j) & 1;
        return r;
    }
    template<class W, class L, int N> W make(L const (&l)[N])
    {
        static_assert(sizeof(W) == N * sizeof(L), "wide_integer storage is not N limbs");
        W w; std::memcpy(static_cast<void*>(&w), l, sizeof l); return w;
    }
    template<int NB> bool same(bits<NB> const& x, bits<NB> const& y) { return std::memcmp(x.b, y.b, NB) == 0; }
    template<int NB> bits<NB> add(bits<NB> const& x, bits<NB> const& y, int c = 0)
    { bits<NB> r{}; for (int i = 0; i < NB; ++i) { int t = x.b[i] + y.b[i] + c; r.b[i] = t & 1; c = t >> 1; } return r; }
    template<int NB> bits<NB> inv(bits<NB> const& x) { bits<NB> r{}; for (int i = 0; i < NB; ++i) r.b[i] = !x.b[i]; return r; }
    template<int NB> bits<NB> sub(bits<NB> const& x, bits<NB> const& y) { return add(x, inv(y), 1); }
    template<int NB> bits<NB> neg(bits<NB> const& x) { bits<NB> z{}; return sub(z, x); }
    template<int NB> bits<NB> one() { bits<NB> r{}; r.b[0] = 1; return r; }
    template<int NB> bits<NB> bit_and(bits<NB> const& x, bits<NB> const& y) { bits<NB> r{}; for (int i = 0; i < NB; ++i) r.b[i] = x.b[i] & y.b[i]; return r; }
    template<int NB> bits<NB> bit_or(bits<NB> const& x, bits<NB> const& y) { bits<NB> r{}; for (int i = 0; i < NB; ++i) r.b[i] = x.b[i] | y.b[i]; return r; }
    template<int NB> bits<NB> bit_xor(bits<NB> const& x, bits<NB> const& y) { bits<NB> r{}; for (int i = 0; i < NB; ++i) r.b[i] = x.b[i] ^ y.b[i]; return r; }
    template<int NB> bits<NB> shl(bits<NB> const& x, int s) { bits<NB> r{}; for (int i = 0; i < NB; ++i) r.b[i] = (i - s >= 0 && i - s < NB) ? x.b[i - s] : 0; return r; }
    template<int NB> bits<NB> shr(bits<NB> const& x, int s, bool is_signed)
    { bits<NB> r{}; for (int i = 0; i < NB; ++i) r.b[i] = (i + s < NB) ? x.b[i + s] : (is_signed ? x.b[NB - 1] : 0); return r; }
    template<int NB> bool less(bits<NB> const& x, bits<NB> const& y, bool is_signed)
    {
        if (is_signed && x.b[NB - 1] != y.b[NB - 1]) return x.b[NB - 1];
        for (int i = NB - 1; i >= 0; --i) if (x.b[i] != y.b[i]) return y.b[i];
        return false;
    }
    template<int NB> bits<NB> from_ll(long long v, bool v_signed)
    { bits<NB> r{}; unsigned long long u = static_cast<unsigned long long>(v); for (int i = 0; i < NB; ++i) r.b[i] = i < 64 ? ((u >> i) & 1) : (v_signed && v < 0); return r; }
    template<int NB> unsigned long long low64(bits<NB> const& x) { unsigned long long u = 0; for (int i = 0; i < 64 && i < NB; ++i) u |= static_cast<unsigned long long>(x.b[i]) << i; return u; }
}
"""


def storage(D, signed, limb_bits):
    need = D + (1 if signed else 0)
    return -(-need // limb_bits)          # limbs


def chk_shim(name, Wt, limb_cxx, limb_short, N, signed, kind, body_ref, extra_params=(), second=False):
    """extern "C" int <name>(limbs of a [, limbs of b] [, extras]): 1 iff the real operator's result equals the bit-level reference"""
    ps = ['%s a%d' % (limb_cxx, i) for i in range(N)]
    if second:
        ps += ['%s b%d' % (limb_cxx, i) for i in range(N)]
    ps += ['%s %s' % (t, n) for t, n in extra_params]
    pre = '%s la[%d] = {%s}; %s a = vpw::make<%s>(la); auto A = vpw::load<%s, %d>(a); constexpr bool S = %s; (void)S; (void)A;' % (
        limb_cxx, N, ', '.join('a%d' % i for i in range(N)), Wt, Wt, limb_cxx, N, 'true' if signed else 'false')
    if second:
        pre += ' %s lb[%d] = {%s}; %s b = vpw::make<%s>(lb); auto B = vpw::load<%s, %d>(b);' % (
            limb_cxx, N, ', '.join('b%d' % i for i in range(N)), Wt, Wt, limb_cxx, N)
    types = [limb_short] * (N * (2 if second else 1)) + [{'int': 'i32', 'long long': 'i64l', 'unsigned long long': 'u64l'}.get(t, t) for t, _ in extra_params]
    return 'extern "C" int %s(%s) { %s %s }\n' % (name, ', '.join(ps), pre, body_ref), types


def plan(tier):
    thorough = tier == 'thorough'
    src = [KERNEL_HEAD, REF]
    jobs = []
    kname = 'C10'
    inst = [(200, 'int', True, 'i32')]
    if thorough:
        inst += [(200, 'unsigned', False, 'u32'), (136, 'std::int16_t', True, 'i16'), (256, 'std::uint64_t', False, 'u64')]
    for (D, narrow, signed, nm) in inst:
        Wt = 'cnl::wide_integer<%d, %s>' % (D, narrow)
        tag = 'w%d_%s' % (D, nm)
        lb = {'i32': 32, 'u32': 32, 'i16': 16, 'u64': 64}[nm]
        limb_short = 'u%d' % lb
        limb_cxx = cxx(limb_short)
        N = storage(D, signed, lb)
        yes = lambda *a: ('value', 1)

        def chk(opname, body, extra=(), second=False):
            cname = 'vp_chk_%s_%s' % (opname, tag)
            text, types = chk_shim(cname, Wt, limb_cxx, limb_short, N, signed, opname, body, extra, second)
            src.append(text)
            return dict(shim=cname, shim_types=types, oracle=yes)
        ops = [('add', '+'), ('subtract', '-'), ('and', '&'), ('or', '|'), ('xor', '^')]
        for name, sym in ops:
            sname = 'vp_%s_%s' % (name, tag)
            src.append('extern "C" void %s(%s const* a, %s const* b, %s* r) { *r = *a %s *b; }\n' % (sname, Wt, Wt, Wt, sym))
            ref = {'+': 'vpw::add(A, B)', '-': 'vpw::sub(A, B)', '&': 'vpw::bit_and(A, B)', '|': 'vpw::bit_or(A, B)', '^': 'vpw::bit_xor(A, B)'}[sym]
            rp = chk(name, 'auto r = a %s b; return vpw::same(vpw::load<%s, %d>(r), %s);' % (sym, limb_cxx, N, ref), second=True)
            jobs.append(Job('%s.%s.%s' % (PROP, name, tag), kname, r'^auto cnl::_impl::operator[-+&|^]<cnl::_impl::wrapper<cnl::_impl::math::wide_integer::uintwide_t<',
                            binop_contract(sym, signed), via=sname, inputs=['vp_in1', 'vp_in2'], **rp, prop=PROP, unwind=20, timeout=900, skip_this=False, object_bits=13, mem_est=4,
                            solvers=('minisat',), layer=3))
        if signed:
            sname = 'vp_neg_' + tag
            src.append('extern "C" void %s(%s const* a, %s* r) { *r = -*a; }\n' % (sname, Wt, Wt))
            jobs.append(Job('%s.negate.%s' % (PROP, tag), kname, r'^auto cnl::_impl::operator-<cnl::_impl::wrapper<cnl::_impl::math::wide_integer::uintwide_t<.*> >\(cnl::_impl::wrapper<[^()]*\) ?$|^auto cnl::_impl::operator-<cnl::_impl::wrapper<',
                            unop_contract('-'), via=sname, inputs=['vp_in1'],
                            **chk('neg', 'auto r = -a; return vpw::same(vpw::load<%s, %d>(r), vpw::neg(A));' % (limb_cxx, N)), prop=PROP, unwind=20, timeout=900, skip_this=False, object_bits=13, mem_est=4, layer=3))
        # shifts: a symbolic count makes CBMC run out of memory (limb move + bit shift loops); the count is fixed per job to a boundary-rich
        # set (harness assigns the constant, so symex folds the limb loops) and the contract is proved for ALL values at that count
        counts = [1, 31, 32, 33, D - 1] if not thorough else [0, 1, 15, 16, 17, 32, 33, 64, 100, D - 1]
        for name, left in (('shl', True), ('shr', False)):
            sname = 'vp_%s_%s' % (name, tag)
            src.append('extern "C" void %s(%s const* a, int s, %s* r) { *r = *a %s s; }\n' % (sname, Wt, Wt, '<<' if left else '>>'))
            rp = chk(name, 'auto r = a %s s; return vpw::same(vpw::load<%s, %d>(r), %s);' % ('<<' if left else '>>', limb_cxx, N, 'vpw::shl(A, s)' if left else 'vpw::shr(A, s, S)'), extra=[('int', 's')])
            for K in counts:
                jobs.append(Job('%s.%s%d.%s' % (PROP, name, K, tag), kname, r'^auto cnl::_impl::operator(<<|>>)<cnl::_impl::wrapper<cnl::_impl::math::wide_integer::uintwide_t<',
                                shift_contract(left, signed, K), via=sname, prop=PROP, unwind=20, timeout=900, skip_this=False, object_bits=13, mem_est=4,
                                harness_pre='vp_in2 = %d;' % K, inputs=['vp_in1', 'vp_in2'], **rp, note='shift count fixed to %d (one job per count of a boundary-rich set); all operand values' % K,
                                solvers=('minisat',), layer=3))
        for name, sym in (('eq', '=='), ('lt', '<'), ('ge', '>=')) + ((('ne', '!='), ('le', '<='), ('gt', '>')) if thorough else ()):
            sname = 'vp_%s_%s' % (name, tag)
            src.append('extern "C" bool %s(%s const* a, %s const* b) { return *a %s *b; }\n' % (sname, Wt, Wt, sym))
            ref = {'==': 'vpw::same(A, B)', '!=': '!vpw::same(A, B)', '<': 'vpw::less(A, B, S)', '>': 'vpw::less(B, A, S)', '<=': '!vpw::less(B, A, S)', '>=': '!vpw::less(A, B, S)'}[sym]
            rp = chk(name, 'return (a %s b) == (%s);' % (sym, ref), second=True)
            jobs.append(Job('%s.%s.%s' % (PROP, name, tag), kname, r'^auto cnl::_impl::operator(==|!=|<=?|>=?)<cnl::_impl::wrapper<cnl::_impl::math::wide_integer::uintwide_t<',
                            cmp_contract(sym, signed), via=sname, inputs=['vp_in0', 'vp_in1'], **rp, prop=PROP, unwind=20, timeout=900, skip_this=False, object_bits=13, mem_est=4, layer=3))
        # construction from / conversion to built-in integers, ++ and --
        PW = r'cnl::_impl::wrapper<cnl::_impl::math::wide_integer::uintwide_t<[^()]*>, cnl::wide_tag<[^()]*> >'
        for ts in (['i64', 'u32'] + (['i8', 'u64'] if thorough else [])):
            t = T(ts)
            sname = 'vp_from_%s_%s' % (ts, tag)
            src.append('extern "C" void %s(%s v, %s* r) { *r = %s{v}; }\n' % (sname, cxx(ts), Wt, Wt))
            src.append('extern "C" int vp_chk_from_%s_%s(%s v) { %s r{v}; return vpw::same(vpw::load<%s, %d>(r), vpw::from_ll<%d>(static_cast<long long>(v), %s)); }\n'
                       % (ts, tag, cxx(ts), Wt, limb_cxx, N, N * lb, 'true' if t.signed else 'false'))
            jobs.append(Job('%s.from_%s.%s' % (PROP, ts, tag), kname, r'^%s::wrapper<%s>\(%s const&\)$' % (PW, dem(ts), dem(ts)),
                            ctor_contract(t), via=sname, inputs=['vp_in1'], shim='vp_chk_from_%s_%s' % (ts, tag), shim_types=[ts], oracle=yes, prop=PROP, unwind=20, timeout=600, skip_this=False, object_bits=13, mem_est=4, layer=3))
        for ts in (['i64', 'u16'] + (['i32', 'u64'] if thorough else [])):
            t = T(ts)
            sname = 'vp_to_%s_%s' % (ts, tag)
            src.append('extern "C" %s %s(%s const* a) { return static_cast<%s>(*a); }\n' % (cxx(ts), sname, Wt, cxx(ts)))
            jobs.append(Job('%s.to_%s.%s' % (PROP, ts, tag), kname, r'^%s::operator %s<%s>\(\) const$' % (PW, dem(ts), dem(ts)),
                            conv_contract(t), via=sname, inputs=['vp_in0'],
                            **chk('to_' + ts, 'return static_cast<%s>(a) == static_cast<%s>(vpw::low64(A));' % (cxx(ts), cxx(ts))), prop=PROP, unwind=20, timeout=600, skip_this=False, object_bits=13, mem_est=4, layer=3))
        for name, sym in (('inc', '+'), ('dec', '-')):
            sname = 'vp_%s_%s' % (name, tag)
            src.append('extern "C" void %s(%s* a) { %s%s*a; }\n' % (sname, Wt, sym, sym))
            jobs.append(Job('%s.%s.%s' % (PROP, name, tag), kname, r'^decltype\(auto\) cnl::_impl::operator(\+\+|--)<%s >\(%s&\)$' % (PW, PW),
                            step_contract(sym), via=sname, inputs=['vp_in0'],
                            **chk(name, 'auto r = a; %s%sr; return vpw::same(vpw::load<%s, %d>(r), vpw::%s(A, vpw::one<%d>()));' % (sym, sym, limb_cxx, N, 'add' if sym == '+' else 'sub', N * lb)), prop=PROP, unwind=20, timeout=600, skip_this=False, object_bits=13, mem_est=4, layer=3))
    k = Kernel(kname, ''.join(src), [], 'wide_integer linear operations')
    meta = {'instantiations': len(jobs),
            'explanation': 'limbs concatenated into one W-bit vector; every limb loop closed by complete unwinding',
            'not_applicable_parts': ['<< and >> with a SYMBOLIC count (limb move + bit shift loops): CBMC ran out of memory; proved per count for a boundary-rich set of constant counts instead', 'multi-limb *, /, %: two different W-bit multipliers/dividers, no SAT answer even at 64 bits total (design probe)',
                                     'decimal text output and float conversion of wide values', 'numeric_limits; operator~ does not compile for widths beyond 128 bits (uintwide_t has no const operator~): nothing to verify',
                                     'the two\'s-complement width is the storage width (a multiple of the limb width), not Digits+1'],
            'assumptions': []}
    return {'kernels': [k], 'jobs': jobs, 'meta': meta}

import sys
sys.path.insert(0,'/verif')
from vplib.speclib import KERNEL_HEAD, T, cxx, dem, Contract, Job, Kernel
from specs.C13 import harness_buf, tochars_contract
def plan(tier):
    t=T('i8')
    src=KERNEL_HEAD+'extern "C" long vp_x(std::uint64_t n, std::int8_t v) { char buf[64]; auto r = cnl::to_chars(buf, buf+n, cnl::_impl::from_rep<cnl::scaled_integer<std::int8_t, cnl::power<-2>>>(v)); return r.ptr-buf; }\n'
    c=tochars_contract(t)
    j=Job('C13x.scaled.i8_m2','C13x', r'^auto cnl::to_chars<signed char, -2, 2>\(char\*, char\*, cnl::_impl::wrapper<', c, harness=harness_buf(None,t,12), prop='C13', timeout=3000, skip_this=False,
          unwind=30, solvers=('cadical',), object_bits=14, mem_gb=40)
    return {'kernels':[Kernel('C13x',src,[],'')],'jobs':[j],'meta':{}}

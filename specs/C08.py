"""C08 -- integer division under a rounding mode returns the correctly rounded quotient.

Functions under contract:
  L1  cnl::custom_operator<divide_op, op_value<L,Tag>, op_value<R,Tag>>::operator()  for Tag in nearest / tie_to_pos_inf / neg_inf
      (helpers step1/step2, remainder/division/division_neg and cnl::_impl::abs are inlined: real extracted bodies)
      and for native_rounding_tag (inherits divide_op)
  L2  cnl::custom_operator<divide_op, op_value<wrapper<L,Tag>>, op_value<wrapper<R,Tag>>>::operator()    L1 replaced by contract
  L3  operator/ on cnl::rounding_integer<Rep, Tag>                                                        L2 replaced by contract
  OTHER public + - * >> & < (thorough: % << ^ == >=) on rounding_integer<T, nearest/tie_pos/neg_inf>: whole operator inlined, contract = the C++
      semantics of the built-in expression on the reps (same contract generator as C12).
Postcondition, division-free, q = ret, a, b exact in a wide vector:
  nearest (ties away from zero): 2|a - q b| <= |b|  and  (2|a - q b| == |b|  ==>  |q b| > |a|)
  tie to +inf                  : -|b| <= 2 (a - q b) sgn(b) < |b|
  neg_inf (floor)              : 0 <= (a - q b) sgn(b) < |b|
  native (toward zero)         : |a - q b| < |b|  and  (a - q b == 0 or sgn(a - q b) == sgn(a))
Precondition: b != 0 and the correctly rounded quotient is representable (for equal-signedness operand pairs that excludes
exactly lowest / -1).  All UB obligations inside (bias added before dividing, negations, abs) are in scope.
"""
import re

from vplib import cxxtypes as CT
from vplib.speclib import (KERNEL_HEAD, T, cxx, dem, W, wval, wconst, Contract, Job, Kernel, shim, trunc_div,
                           arg_rep, builtin_sem, py_builtin, short_of)

PROP = 'C08'
TAGS = {'nearest': 'cnl::nearest_rounding_tag', 'tie_pos': 'cnl::tie_to_pos_inf_rounding_tag',
        'neg_inf': 'cnl::neg_inf_rounding_tag', 'native': 'cnl::native_rounding_tag'}


def absx(e):
    return '(%s < 0 ? -%s : %s)' % (e, e, e)


def div_contract(mode, L, R, first):
    def gen(m, fi, tr):
        if fi['nparams'] != first + 2:
            return None
        Res = CT.common(L, R)
        w = 2 * max(L.bits, R.bits, Res.bits) + 6
        a, b = wval(arg_rep(tr, fi, first), L, w), wval(arg_rep(tr, fi, first + 1), R, w)
        q = wval('$RET', Res, w)
        d = '(%s - %s * %s)' % (a, q, b)                 # a - q b
        ds = '(%s < 0 ? -%s : %s)' % (b, d, d)           # (a - q b) * sgn(b)
        ab = absx(b)
        req = ['%s != 0' % b]
        if Res.signed and L.signed and R.signed:
            req.append('!(%s == %s && %s == -1)' % (a, wconst(Res.min, w), b))
        if mode == 'nearest':
            ens = ['2 * %s <= %s' % (absx(d), ab),
                   '(2 * %s == %s) ==> (%s > %s)' % (absx(d), ab, absx('(%s * %s)' % (q, b)), absx(a))]
        elif mode == 'tie_pos':
            ens = ['-%s <= 2 * %s && 2 * %s < %s' % (ab, ds, ds, ab)]
        elif mode == 'neg_inf':
            ens = ['0 <= %s && %s < %s' % (ds, ds, ab)]
        else:
            ens = ['%s < %s' % (absx(d), ab), '%s == 0 || ((%s < 0) == (%s < 0))' % (d, d, a)]
        return Contract(requires=req, ensures=ens, assigns=[], note='correctly rounded quotient, mode %s' % mode)
    return gen


def py_round_div(mode, a, b):
    from fractions import Fraction
    import math
    x = Fraction(a, b)
    if mode == 'nearest':
        fl = math.floor(abs(x) + Fraction(1, 2))
        return fl if x >= 0 else -fl
    if mode == 'tie_pos':
        return math.floor(x + Fraction(1, 2))
    if mode == 'neg_inf':
        return math.floor(x)
    return trunc_div(a, b)


def oracle(mode, L, R):
    Res = CT.common(L, R)

    def o(a, b):
        if b == 0:
            return None
        q = py_round_div(mode, a, b)
        if not Res.min <= q <= Res.max:
            return None
        return ('value', q)
    return o


P_TAGDIV = r'^cnl::custom_operator<cnl::_impl::divide_op, cnl::op_value<[a-z_0-9 ]+, cnl::\w+_rounding_tag>, cnl::op_value<[a-z_0-9 ]+, cnl::\w+_rounding_tag> ?>::operator\(\)\('
P_NATDIV = r'cnl::_impl::divide_op::operator\(\)<[a-z_0-9 ]+, [a-z_0-9 ]+>\('
P_WRAPOP = r'^cnl::custom_operator<cnl::_impl::divide_op, cnl::op_value<cnl::_impl::wrapper<.*>::operator\(\)\(cnl::_impl::wrapper<'
P_PUBLIC = r'^auto cnl::_impl::operator/<cnl::_impl::wrapper<'


def plan(tier):
    thorough = tier == 'thorough'
    src = [KERNEL_HEAD]
    jobs = []
    kname = 'C08'
    pairs_q = [('i8', 'i8'), ('u8', 'u8'), ('i8', 'i16'), ('i16', 'i16')]
    pairs_t = pairs_q + [('u16', 'u16'), ('i16', 'i8'), ('i32', 'i32'), ('u32', 'u32'), ('i32', 'i16')]
    n = 0
    for mode, tg in TAGS.items():
        for (l, r) in (pairs_t if thorough else pairs_q):
            L, R = T(l), T(r)
            bits = max(L.bits, R.bits)
            if bits >= 16 and not thorough and mode != 'native' and (l, r) != ('i8', 'i16'):
                continue        # quick: 8-bit pairs, plus one mixed-width pair (int8_t / int16_t: seconds per mode)
            if bits >= 32 and L.signed and mode in ('tie_pos', 'neg_inf'):
                continue        # measured: no SAT answer in 1500 s (32-bit divider against the 70-bit spec multiplier, sign case split) -- not claimed
            tag = '%s_%s_%s' % (mode, l, r)
            Res = CT.common(L, R)
            sname = 'vp_' + tag
            src.append(shim(short_of(Res), sname, [(l, 'a'), (r, 'b')],
                            'return cnl::_impl::operate<cnl::_impl::divide_op, %s>{}(a, b);' % tg))
            heavy = bits >= 16
            common = dict(shim=sname, shim_types=[l, r], oracle=oracle(mode, L, R), prop=PROP,
                          solvers=('kissat', 'cadical') if heavy else ('minisat',), timeout=1500 if heavy else 120)
            c1 = div_contract(mode, L, R, 1)
            jobs.append(Job('%s.L1.%s' % (PROP, tag), kname, P_TAGDIV if mode != 'native' else P_NATDIV, c1, via=sname, layer=1, **common))
            # through rounding_integer
            if bits <= 16 or thorough:
                A = 'cnl::rounding_integer<%s, %s>' % (cxx(l), tg)
                B = 'cnl::rounding_integer<%s, %s>' % (cxx(r), tg)
                s2 = 'vp_ri_' + tag
                src.append(shim(short_of(Res), s2, [(l, 'a'), (r, 'b')],
                                'return cnl::_impl::to_rep(cnl::_impl::from_rep<%s>(a) / cnl::_impl::from_rep<%s>(b));' % (A, B)))
                c0 = div_contract(mode, L, R, 0)
                common2 = dict(common, shim=s2)
                jobs.append(Job('%s.L3.%s' % (PROP, tag), kname, P_PUBLIC, c0, replace=[(P_WRAPOP, c1)], via=s2, layer=3, **common2))
                jobs.append(Job('%s.L2.%s' % (PROP, tag), kname, P_WRAPOP, c1,
                                replace=[(P_TAGDIV, c1), (P_NATDIV, c1)], via=s2, layer=2, **common2))
            n += 1
    # "all other operators under a rounding tag behave exactly like the built-in ones": public operator on rounding_integer<T, Tag>
    # for the non-native tags, whole operator inlined, against the C++ semantics of the built-in expression (as C12 does for native tags)
    from specs.C12 import sem_contract as c12_contract, oracle as c12_oracle, OPS as C12_OPS, CMP as C12_CMP
    from vplib.speclib import builtin_sem as _bs
    P_ANYOP = r'^auto cnl::_impl::operator(?:[-+*%&|^]|<<|>>|==|!=|<=|>=|<|>)<cnl::_impl::wrapper<'
    other_ops = ['add', 'subtract', 'multiply', 'shift_right', 'bitwise_and', 'less_than'] + (['modulo', 'shift_left', 'bitwise_xor', 'equal', 'greater_than_or_equal'] if thorough else [])
    for mode in ('nearest', 'tie_pos', 'neg_inf'):
        tg = TAGS[mode]
        for (l, r) in [('i32', 'i32'), ('i16', 'u16')] + ([('u32', 'i32'), ('i8', 'i8')] if thorough else []):
            if not thorough and mode != 'nearest' and (l, r) != ('i32', 'i32'):
                continue
            L, R = T(l), T(r)
            A = 'cnl::rounding_integer<%s, %s>' % (cxx(l), tg)
            B = 'cnl::rounding_integer<%s, %s>' % (cxx(r), tg)
            for op in other_ops:
                sym = C12_OPS[op]
                tag = 'other_%s_%s_%s_%s' % (mode, op, l, r)
                sname = 'vp_' + tag
                Res = _bs(op, L, R, 'x', 'y')['res']
                if op in C12_CMP:
                    src.append(shim('bool', sname, [(l, 'a'), (r, 'b')], 'return cnl::_impl::from_rep<%s>(a) %s cnl::_impl::from_rep<%s>(b);' % (A, sym, B)))
                else:
                    src.append(shim(short_of(Res), sname, [(l, 'a'), (r, 'b')], 'return cnl::unwrap(cnl::_impl::from_rep<%s>(a) %s cnl::_impl::from_rep<%s>(b));' % (A, sym, B)))
                absm = dict(abstract_mul=True, abstract_div=True) if op in ('multiply', 'modulo') else {}
                jobs.append(Job('%s.L3.%s' % (PROP, tag), kname, P_ANYOP, c12_contract(op, L, R, 0), via=sname, shim=sname, shim_types=[l, r],
                                oracle=c12_oracle(op, L, R), prop=PROP, timeout=120, layer=3, **absm))
    k = Kernel(kname, ''.join(src), [], 'rounding division')
    meta = {'instantiations': n,
            'explanation': 'division-free postconditions from the statement; helper functions of each mode are inlined real bodies',
            'not_applicable_parts': ['64-bit representations: divider/multiplier obligations beyond every SAT back end here (not claimed)',
                                     'signed 32-bit operands under tie_to_pos_inf / neg_inf: solver timeout (1500 s), not claimed; nearest, native and unsigned 32-bit are',
                                     'mixed-signedness operand pairs: representability precondition is not a closed corner condition (not claimed)'],
            'assumptions': []}
    return {'kernels': [k], 'jobs': jobs, 'meta': meta}

"""C16 -- fraction arithmetic, ordering, reduction and hashing follow the rationals.

Functions under contract (components int8_t: everything incl. std::gcd by complete unwinding; int16_t/int32_t: arithmetic
and comparisons, loop-free):
  cnl::operator+,-,*,/ (fraction, fraction), unary -,+            value equality of rationals, cross-multiplied in a wide vector
  cnl::operator==,!=,<,>,<=,>= (fraction, fraction)               order of the rational values regardless of denominator signs
  cnl::_impl::reduce, cnl::_impl::canonical                        value preserved, lowest terms, canonical: positive denominator
  std::hash<cnl::fraction<>>::operator()                           a function of the canonical form only (decoded from the hash)
  cnl::fraction::operator float()                                  == (float)n / (float)d
Preconditions: non-zero denominators and 'operands small enough that the cross products fit' (each product/sum the
operator forms fits the promoted component type) -- under them every UB.signed-overflow obligation must hold too.
"""
from vplib import cxxtypes as CT
from vplib.speclib import KERNEL_HEAD, T, cxx, dem, W, wval, wconst, Contract, Job, Kernel, shim, short_of

PROP = 'C16'


def fld(base, k):
    return '(%s.f%d)' % (base, k)


def retfield(off, bits):
    return '((uint%d_t)(((uint64_t)$RET) >> %d))' % (bits, off)


def fits(e, t, w):
    return '(%s >= %s && %s <= %s)' % (e, wconst(t.min, w), e, wconst(t.max, w))


def uv(e, t):
    """component expression e (unsigned storage of type t) sign-extended into the unsigned promoted storage type,
    exactly as the extracted code holds it (so that CBMC shares one multiplier between code and spec)"""
    P = CT.promote(t)
    return '((%s)((%s)%s))' % (P.ctype, t.sctype, e)


def umul(a, b, P):
    return 'VP_MUL%d(%s, %s)' % (P.bits, a, b)


def uadd(a, b, P, sym='+'):
    return '((%s)((%s)%s %s (%s)%s))' % (P.ctype, P.ctype, a, sym, P.ctype, b)


def sv(e, P):
    return '((%s)%s)' % (P.sctype, e)


def exact_ll(a, b, t, sym='*'):
    return '((long long)(%s)%s %s (long long)(%s)%s)' % (t.sctype, a, sym, t.sctype, b)


def fits_ll(e, P):
    return '(%s >= %dLL && %s <= %dLL)' % (e, P.min, e, P.max)


def arith_contract(op, t, part='rel'):
    """Modular (mod 2^32) products/sums written as the operators form them; they are the exact integers because the
    precondition 'cross products fit' (trivially true for 8/16-bit components) excludes wrap.  Postcondition: the result
    has the exact rational value -- either component-wise equal to (num, den) or cross-multiplied equal in a wide vector."""
    P = CT.promote(t)
    nl, dl = uv('(*a0).f0', t), uv('(*a0).f1', t)
    nr, dr = uv('(*a1).f0', t), uv('(*a1).f1', t)
    rn, rd = retfield(0, P.bits), retfield(P.bits, P.bits)
    req = ['%s != 0' % dl, '%s != 0' % dr]
    ex = []
    if op in ('add', 'subtract'):
        sym = '+' if op == 'add' else '-'
        p1, p2 = umul(nl, dr, P), umul(nr, dl, P)
        num = uadd(p1, p2, P, sym)
        den = umul(dl, dr, P)
        ex = [exact_ll('(*a0).f0', '(*a1).f1', t), exact_ll('(*a1).f0', '(*a0).f1', t), exact_ll('(*a0).f1', '(*a1).f1', t),
              '(%s %s %s)' % (exact_ll('(*a0).f0', '(*a1).f1', t), sym, exact_ll('(*a1).f0', '(*a0).f1', t))]
    elif op == 'multiply':
        num, den = umul(nl, nr, P), umul(dl, dr, P)
        ex = [exact_ll('(*a0).f0', '(*a1).f0', t), exact_ll('(*a0).f1', '(*a1).f1', t)]
    else:
        num, den = umul(nl, dr, P), umul(dl, nr, P)
        req.append('%s != 0' % nr)
        ex = [exact_ll('(*a0).f0', '(*a1).f1', t), exact_ll('(*a0).f1', '(*a1).f0', t)]
    if 2 * t.bits >= P.bits:
        # 'operands small enough that the cross products fit', stated through the shared signed-product-overflow predicate
        # (one uninterpreted predicate when multiplication is abstracted) and the machine overflow test of the sum
        if op in ('add', 'subtract'):
            req += ['!VP_SMULOVF%d(%s, %s)' % (P.bits, nl, dr), '!VP_SMULOVF%d(%s, %s)' % (P.bits, nr, dl), '!VP_SMULOVF%d(%s, %s)' % (P.bits, dl, dr),
                    '!__CPROVER_overflow_%s(%s, %s)' % ('plus' if op == 'add' else 'minus', sv(p1, P), sv(p2, P))]
        elif op == 'multiply':
            req += ['!VP_SMULOVF%d(%s, %s)' % (P.bits, nl, nr), '!VP_SMULOVF%d(%s, %s)' % (P.bits, dl, dr)]
        else:
            req += ['!VP_SMULOVF%d(%s, %s)' % (P.bits, nl, dr), '!VP_SMULOVF%d(%s, %s)' % (P.bits, dl, nr)]
    w = 2 * P.bits + 4
    cross = '((%s)%s) * ((%s)%s) == ((%s)%s) * ((%s)%s)' % (W(w), sv(rn, P), W(w), sv(den, P), W(w), sv(num, P), W(w), sv(rd, P))
    if part == 'den':
        ens = ['%s != 0' % rd]
        note = 'the result has a non-zero denominator (machine multiplication, no abstraction)'
    else:
        ens = ['%s == %s && %s == %s' % (rn, num, rd, den)]
        note = 'rational value of the result equals the exact %s (multiplication abstracted as one uninterpreted function per width: congruence)' % op
    return Contract(requires=req, ensures=ens, assigns=[], note=note)


def unary_contract(op, t):
    """-f and +f denote exactly -(n/d) and n/d: cross-multiplied in a wide vector; the result keeps a non-zero denominator"""
    P = CT.promote(t)
    Dt = t if op == 'minus' else P          # operator- leaves the denominator unpromoted, operator+ promotes both
    w = 80
    n = '((%s)(%s)(*a0).f0)' % (W(w), t.sctype)
    d = '((%s)(%s)(*a0).f1)' % (W(w), t.sctype)
    rn = '((%s)(%s)%s)' % (W(w), P.sctype, retfield(0, P.bits))
    rd = '((%s)(%s)%s)' % (W(w), Dt.sctype, retfield(P.bits, Dt.bits))
    req = ['%s != 0' % d]
    if op == 'minus' and P.bits == t.bits:
        req.append('%s != %s' % (n, wconst(P.min, w)))       # -n must fit ('operands small enough')
    sign = '-' if op == 'minus' else ''
    # the rational value: either component-wise (sign on the numerator or on the denominator) or, for any other representation,
    # cross-multiplied (two different multipliers commute only for SAT at 8 bits, so the cheap disjuncts come first)
    same = ('(%s == %s%s && %s == %s)' % (rn, sign, n, rd, d)) + ((' || (%s == %s && %s == -%s)' % (rn, n, rd, d)) if op == 'minus' else '')
    return Contract(requires=req, ensures=['%s || (%s * %s == %s%s * %s)' % (same, rn, d, sign, n, rd), '%s != 0' % rd], assigns=[],
                    note='unary %s on a fraction: exact rational value, non-zero denominator' % ('-' if op == 'minus' else '+'))


def cmp_contract(op, t):
    P = CT.promote(t)
    nl, dl = uv('(*a0).f0', t), uv('(*a0).f1', t)
    nr, dr = uv('(*a1).f0', t), uv('(*a1).f1', t)
    a, b = sv(umul(nl, dr, P), P), sv(umul(nr, dl, P), P)
    neg = '((%s < 0) != (%s < 0))' % (sv(dl, P), sv(dr, P))
    sym = {'eq': '==', 'ne': '!=', 'lt': '<', 'gt': '>', 'le': '<=', 'ge': '>='}[op]
    # nl/dl ? nr/dr  <=>  nl*dr*s ? nr*dl*s with s = sign(dl*dr); with s = -1 the comparison flips
    flip = {'==': '==', '!=': '!=', '<': '>', '>': '<', '<=': '>=', '>=': '<='}[sym]
    val = '(%s ? (%s %s %s) : (%s %s %s))' % (neg, a, flip, b, a, sym, b)
    req = ['%s != 0' % dl, '%s != 0' % dr]
    if 2 * t.bits >= P.bits:
        req += ['!VP_SMULOVF%d(%s, %s)' % (P.bits, nl, dr), '!VP_SMULOVF%d(%s, %s)' % (P.bits, nr, dl)]
    return Contract(requires=req, ensures=['($RET != 0) == %s' % val], assigns=[], note='order of the rational values, any denominator signs')


def coprime(n, d, limit):
    return '(' + ' && '.join('!(%s %% %d == 0 && %s %% %d == 0)' % (n, k, d, k) for k in range(2, limit + 1)) + ')'


def reduce_contract(t, canonical):
    P = CT.promote(t)
    w = P.bits + t.bits + 4
    n, d = wval('(*a0).f0', t, w), wval('(*a0).f1', t, w)
    rn, rd = wval(retfield(0, P.bits), P, w), wval(retfield(P.bits, P.bits), P, w)
    lim = 2 ** (t.bits - 1)
    # |n|,|d| <= 2^(bits-1): any common divisor is <= that; the most negative component is excluded (std::gcd precondition: |m| representable)
    req = ['%s != 0' % d, '%s != %s' % (n, wconst(t.min, w)), '%s != %s' % (d, wconst(t.min, w))]
    ens = ['%s != 0' % rd, '%s * %s == %s * %s' % (rn, d, n, rd), coprime(rn, rd, lim - 1)]
    if canonical:
        ens.append('%s > 0' % rd)
    return Contract(requires=req, ensures=ens, assigns=[], note='value preserved, lowest terms' + (', positive denominator' if canonical else ''))


def hash_contract(t):
    # hash == n' ^ rotl(d', 32) over size_t with std::hash<int8_t> the identity (sign-extending) conversion: decode n', d'
    w = 40
    n, d = wval('(*a1).f0', t, w), wval('(*a1).f1', t, w)
    nn = '((int8_t)(uint8_t)$RET)'
    dd = '((int8_t)(uint8_t)((($RET) >> 32) ^ ((%s < 0) ? 0xffULL : 0ULL)))' % nn
    enc = '(((uint64_t)(int64_t)%s) ^ ((((uint64_t)(int64_t)%s) << 32) | (((uint64_t)(int64_t)%s) >> 32)))' % (nn, dd, dd)
    nw, dw = '((%s)%s)' % (W(w), nn), '((%s)%s)' % (W(w), dd)
    return Contract(requires=['%s != 0' % d, '%s != %s' % (n, wconst(t.min, w)), '%s != %s' % (d, wconst(t.min, w))],
                    ensures=['$RET == %s' % enc, '%s > 0' % dw, '%s * %s == %s * %s' % (nw, d, n, dw), coprime(nw, dw, 127)],
                    assigns=[], note='the hash is an injective encoding of the canonical form (lowest terms, positive denominator), '
                                     'which is unique per rational value: equal fractions hash equal')


def plan(tier):
    thorough = tier == 'thorough'
    src = [KERNEL_HEAD]
    jobs = []
    kname = 'C16'
    comps = ['i8', 'i16'] + (['i32'] if thorough else [])
    syms = {'add': '+', 'subtract': '-', 'multiply': '*', 'divide': '/'}
    cs = {'eq': '==', 'ne': '!=', 'lt': '<', 'gt': '>', 'le': '<=', 'ge': '>='}
    for c in comps:
        t = T(c)
        P = CT.promote(t)
        F = 'cnl::fraction<%s>' % cxx(c)
        heavy = t.bits >= 16
        hv = dict(timeout=300)
        if t.bits >= 32 and not thorough:
            continue
        for op, s in syms.items():
            if heavy and op != 'add' and not thorough:
                continue
            sname = 'vp_%s_%s' % (op, c)
            src.append('extern "C" bool %s(%s a, %s b, %s c, %s d) { auto r = %s{a, b} %s %s{c, d}; '
                       'return static_cast<__int128>(r.numerator) * (static_cast<__int128>(b) * d) == %s * static_cast<__int128>(r.denominator); }\n'
                       % (sname, cxx(c), cxx(c), cxx(c), cxx(c), F, s, F,
                          {'add': '(static_cast<__int128>(a) * d + static_cast<__int128>(c) * b)',
                           'subtract': '(static_cast<__int128>(a) * d - static_cast<__int128>(c) * b)',
                           'multiply': '(static_cast<__int128>(a) * c)', 'divide': '(static_cast<__int128>(a) * d)'}[op]
                          if op != 'divide' else '(static_cast<__int128>(a) * d)'))
            # the divide shim compares against denominators b*c
            if op == 'divide':
                src[-1] = src[-1].replace('(static_cast<__int128>(b) * d) ==', '(static_cast<__int128>(b) * c) ==')
            if op == 'multiply':
                pass

            def orc(op, P):
                def o(a, b, c_, d):
                    if b == 0 or d == 0 or (op == 'divide' and c_ == 0):
                        return None
                    prods = {'add': [a * d, c_ * b, a * d + c_ * b, b * d], 'subtract': [a * d, c_ * b, a * d - c_ * b, b * d],
                             'multiply': [a * c_, b * d], 'divide': [a * d, b * c_]}[op]
                    if not all(P.min <= p <= P.max for p in prods):
                        return None
                    return ('value', 1)
                return o
            jobs.append(Job('%s.%s.%s' % (PROP, op, c), kname,
                            r'^auto cnl::operator\%s<%s, %s, %s, %s>\(' % (s, dem(c), dem(c), dem(c), dem(c)),
                            arith_contract(op, t), shim=sname, shim_types=[c, c, c, c], oracle=orc(op, P), prop=PROP, skip_this=False,
                            abstract_mul=True, ignore_classes=('UB.signed-overflow',) if t.bits <= 16 else (),
                            note='UB obligations of this operator are discharged by the companion job .nonzero_den (machine multiplication)', **hv))
            if t.bits <= 16:
              jobs.append(Job('%s.%s.%s.nonzero_den' % (PROP, op, c), kname,
                            r'^auto cnl::operator\%s<%s, %s, %s, %s>\(' % (s, dem(c), dem(c), dem(c), dem(c)),
                            arith_contract(op, t, 'den'), shim=sname, shim_types=[c, c, c, c], oracle=orc(op, P), prop=PROP, skip_this=False,
                            solvers=('cadical', 'kissat'), timeout=900))
        for op, s_ in (('minus', '-'), ('plus', '+')):
            sname = 'vp_%s_%s' % (op, c)
            src.append('extern "C" bool %s(%s a, %s b) { auto r = %s%s{a, b}; return r.denominator != 0 && static_cast<__int128>(r.numerator) * b == %sstatic_cast<__int128>(a) * r.denominator; }\n'
                       % (sname, cxx(c), cxx(c), s_, F, s_))
            jobs.append(Job('%s.%s.%s' % (PROP, op, c), kname, r'^auto cnl::operator\%s<%s, %s>\(cnl::fraction<' % (s_, dem(c), dem(c)),
                            unary_contract(op, t), shim=sname, shim_types=[c, c], prop=PROP, skip_this=False, timeout=300,
                            oracle=(lambda op, P, t: lambda a, b: None if (b == 0 or (op == 'minus' and P.bits == t.bits and a == P.min)) else ('value', 1))(op, P, t)))
        for op, s in cs.items():
            if heavy and op not in ('lt', 'eq') and not thorough:
                continue
            sname = 'vp_%s_%s' % (op, c)
            src.append('extern "C" bool %s(%s a, %s b, %s c, %s d) { return %s{a, b} %s %s{c, d}; }\n' % (sname, cxx(c), cxx(c), cxx(c), cxx(c), F, s, F))

            def orc2(op, P):
                import operator
                f = {'eq': operator.eq, 'ne': operator.ne, 'lt': operator.lt, 'gt': operator.gt, 'le': operator.le, 'ge': operator.ge}[op]

                def o(a, b, c_, d):
                    from fractions import Fraction
                    if b == 0 or d == 0 or not (P.min <= a * d <= P.max and P.min <= c_ * b <= P.max):
                        return None
                    return ('value', 1 if f(Fraction(a, b), Fraction(c_, d)) else 0)
                return o
            pat = r'^auto cnl::operator%s<%s, %s, %s, %s>\(' % (''.join('\\' + ch for ch in s), dem(c), dem(c), dem(c), dem(c))
            jobs.append(Job('%s.%s.%s' % (PROP, op, c), kname, pat, cmp_contract(op, t),
                            shim=sname, shim_types=[c, c, c, c], oracle=orc2(op, P), prop=PROP, skip_this=False, abstract_mul=True, **hv))
    # reduction, canonical form, hash: int8_t components (std::gcd's loops closed by complete unwinding)
    t = T('i8')
    F = 'cnl::fraction<std::int8_t>'
    for name, fn, can in (('reduce', 'cnl::_impl::reduce', False), ('canonical', 'cnl::_impl::canonical', True)):
        sname = 'vp_%s_i8' % name
        src.append('extern "C" bool %s(std::int8_t a, std::int8_t b) { auto r = %s(%s{a, b}); '
                   'bool ok = r.denominator != 0 && r.numerator * b == a * r.denominator%s; '
                   'for (int k = 2; k < 128; ++k) ok = ok && !(r.numerator %% k == 0 && r.denominator %% k == 0); return ok; }\n'
                   % (sname, fn, F, ' && r.denominator > 0' if can else ''))
        jobs.append(Job('%s.%s.i8' % (PROP, name), kname, r'^auto %s<signed char, signed char>\(' % fn.replace('::', '::'),
                        reduce_contract(t, can), shim=sname, shim_types=['i8', 'i8'],
                        oracle=lambda a, b: None if (b == 0 or a == -128 or b == -128) else ('value', 1),
                        prop=PROP, unwind=12, timeout=900, solvers=('cadical', 'kissat'), skip_this=False))
    src.append('extern "C" std::uint64_t vp_hash_i8(std::int8_t a, std::int8_t b) { return std::hash<%s>{}(%s{a, b}); }\n' % (F, F))

    def hash_oracle(a, b):
        from math import gcd
        if b == 0 or a == -128 or b == -128:
            return None
        g = gcd(a, b)
        n, d = a // g, b // g
        if d < 0:
            n, d = -n, -d
        m = (1 << 64) - 1
        dd = d & m
        return ('value', (n & m) ^ (((dd << 32) | (dd >> 32)) & m))
    jobs.append(Job('%s.hash.i8' % PROP, kname, r'^std::hash<cnl::fraction<signed char, signed char> ?>::operator\(\)\(',
                    hash_contract(t), shim='vp_hash_i8', shim_types=['i8', 'i8'], oracle=hash_oracle,
                    prop=PROP, unwind=12, timeout=900, solvers=('cadical', 'kissat')))
    for c, fl in (('i8', 'float'), ('i16', 'float'), ('i32', 'double')):
        t2 = T(c)
        F2 = 'cnl::fraction<%s>' % cxx(c)
        sname = 'vp_to_%s_%s' % (fl, c)
        src.append('extern "C" %s %s(%s a, %s b) { return static_cast<%s>(%s{a, b}); }\n' % (fl, sname, cxx(c), cxx(c), fl, F2))
        jobs.append(Job('%s.to_%s.%s' % (PROP, fl, c), kname,
                        r'^cnl::fraction<%s, %s>::operator %s<%s>\(\) const' % (dem(c), dem(c), fl, fl),
                        Contract(requires=['(*a0).f1 != 0'],
                                 ensures=['$RET == VP_FDIV_{0}(({1})({2})(*a0).f0, ({1})({2})(*a0).f1) || ($RET != $RET && VP_FDIV_{0}(({1})({2})(*a0).f0, ({1})({2})(*a0).f1) != VP_FDIV_{0}(({1})({2})(*a0).f0, ({1})({2})(*a0).f1))'.format('F' if fl == 'float' else 'D', fl, t2.sctype)], assigns=[],
                                 note='conversion to floating point equals numerator / denominator in that type'),
                        shim=sname, shim_types=[c, c], prop=PROP, skip_this=False, timeout=300, abstract_fp=True,
                        oracle=(lambda fl: lambda a, b: None if b == 0 else ('value', (float(a) / float(b)) if fl == 'double' else __import__('struct').unpack('f', __import__('struct').pack('f', __import__('numpy').float32(a) / __import__('numpy').float32(b)))[0]))(fl)))
    k = Kernel(kname, ''.join(src), [], 'fraction')
    meta = {'instantiations': len(jobs),
            'explanation': 'rational-value postconditions by cross-multiplication in wide vectors; gcd loops closed by complete unwinding for int8_t',
            'not_applicable_parts': ['reduce/canonical/hash for components of 16 bits and more: std::gcd loop trip count and the coprimality postcondition exceed the budgets (not claimed)',
                                     '64-bit components: 64x64-bit cross products (not claimed)'],
            'assumptions': ['libstdc++ std::hash<signed char> is the identity conversion to size_t (part of the extracted code, so checked, not assumed, for int8_t)']}
    return {'kernels': [k], 'jobs': jobs, 'meta': meta}

"""C14 -- text output denotes the value (integers: exact canonical decimal numeral).

Function under contract: cnl::to_chars<T>(char*, char*, T const&, int) for built-in integers, with an adequate buffer (capacity+2),
whole function inlined, recursion closed by complete unwinding.  Postcondition (statement): the characters written are the canonical
decimal numeral of exactly that value:
   ec == 0, length == [v < 0] + L where L = number of decimal digits of |v| (1 for 0),
   first[0] == '-' iff v < 0, and for a ghost symbolic index k < L:  first[s + k] == '0' + (|v| / 10^(L-1-k)) % 10
(no leading zero follows from L being the digit count).  to_chars_static yields the same characters: its contract in C13 shows it
calls to_chars with an adequate buffer; to_string / operator<< go through std::string / iostreams (not modelled).
scaled_integer text (fixed / scientific layouts, truncation) is not claimed.
"""
from vplib import cxxtypes as CT
from vplib.speclib import KERNEL_HEAD, T, cxx, dem, W, wval, wconst, Contract, Job, Kernel
from specs.C13 import cap10, harness_buf

PROP = 'C14'


def pow10_sel(j, w, nd, base=10):
    e = wconst(base ** (nd - 1), w)
    for q in range(nd - 2, -1, -1):
        e = '(%s == %d ? %s : %s)' % (j, q, wconst(base ** q, w), e)
    return e


def ndigits(n, base):
    k = 1
    while n >= base:
        n //= base
        k += 1
    return k


def digits_contract(t, base=10):
    w = t.bits + 8
    nd = ndigits(max(abs(t.min), t.max), base)
    v = wval('(*a2)', t, w)
    a = '(%s < 0 ? -%s : %s)' % (v, v, v)
    L = '(' + ' + '.join(['1'] + ['(%s >= %s ? 1 : 0)' % (a, wconst(base ** q, w)) for q in range(1, nd)]) + ')'
    s = '(%s < 0 ? 1 : 0)' % v
    ptr, ec = '__CPROVER_return_value.f0', '__CPROVER_return_value.f1'
    off = lambda p: '__CPROVER_POINTER_OFFSET(%s)' % p
    n = '((uint64_t)(%s - %s))' % (off('a1'), off('a0'))
    j = '((%s)(%s - 1 - (int)vp_k))' % (W(w), L)
    digit = '((%s / %s) %% %d)' % (a, pow10_sel(j, w, nd, base), base)
    # the character of a digit: '0'..'9', then 'a'.. (lower case, as std::to_chars)
    ch = ('48 + %s' % digit) if base <= 10 else '(%s < 10 ? 48 + %s : 87 + %s)' % (digit, digit, digit)
    return Contract(
        requires=['__CPROVER_same_object(a0, a1)', '%s <= %s' % (off('a0'), off('a1')), 'a3 == %d' % base, '%s >= %d' % (n, nd + 1)],
        assigns=['__CPROVER_object_upto(a0, %s)' % n],
        ensures=['%s == 0' % ec,
                 '(int64_t)(%s - %s) == (int64_t)(%s + %s)' % (off(ptr), off('a0'), s, L),
                 '(%s != 0) == (a0[0] == 45)' % s,
                 '((int)vp_k < %s) ==> ((%s)a0[%s + (int)vp_k] == %s)' % (L, W(w), s, ch)],
        note='canonical base-%d numeral of exactly the value' % base)


def plan(tier):
    thorough = tier == 'thorough'
    src = [KERNEL_HEAD]
    jobs = []
    kname = 'C14'
    src.append('#include <cstring>\nstatic int vp_ref_numeral(long long v, int base, char* out) { char tmp[80]; int n = 0; unsigned long long m = v < 0 ? 0ULL - static_cast<unsigned long long>(v) : static_cast<unsigned long long>(v); '
               'do { int d = int(m % base); tmp[n++] = char(d < 10 ? 48 + d : 87 + d); m /= base; } while (m); int k = 0; if (v < 0) out[k++] = 45; while (n) out[k++] = tmp[--n]; return k; }\n')
    plan_ = [(ts, 10) for ts in ['i8', 'u8', 'i16', 'u16'] + (['u32'] if thorough else [])]      # int32_t: no SAT answer in 1800 s (sign path + 10 levels of 32-bit division), not claimed
    plan_ += [('u8', 16), ('i16', 16)] + ([('i8', 16), ('u16', 16), ('u16', 36), ('i8', 11)] if thorough else [])      # other bases (seed C14_2: digit ten printed as ':')
    plan_ += [('i8', 2), ('u8', 2)] + ([('i16', 2), ('u16', 8), ('i8', 3)] if thorough else [])      # smallest bases: the longest numerals (more recursion levels than base 10 ever reaches)
    for ts, base in plan_:
        t = T(ts)
        nd = ndigits(max(abs(t.min), t.max), base)
        cap = max(cap10(t), nd + (1 if t.signed else 0))      # base 10 / 16 / 36: cap10 (unchanged); smaller bases need the longer buffer
        sfx = ts if base == 10 else '%s_b%d' % (ts, base)
        sname = 'vp_text_' + sfx
        # native shim: 1 iff the produced text is exactly the numeral in that base (reference: plain digit loop)
        src.append('extern "C" int %s(std::uint64_t n, %s v) { char buf[48]; char ref[80]; auto r = cnl::to_chars(buf, buf + n, v, %d); '
                   'int m = vp_ref_numeral(static_cast<long long>(v), %d, ref); '
                   'return r.ec == std::errc{} && (r.ptr - buf) == m && std::memcmp(buf, ref, m) == 0; }\n' % (sname, cxx(ts), base, base))
        heavy = t.bits >= 32
        # the lowest value of 32/64-bit signed types is a known finding of C13 (negation); excluded here by precondition
        pre = '__CPROVER_assume(vp_in1 >= %d);' % (nd + 1)
        if t.signed and t.bits >= 32:
            pre += ' __CPROVER_assume((%s)vp_in2 != %s);' % (t.sctype, '(-2147483647 - 1)' if t.bits == 32 else '(-9223372036854775807LL - 1)')
        jobs.append(Job('%s.digits.%s' % (PROP, sfx), kname, r'^auto cnl::to_chars<%s>\(char\*, char\*, %s const&, int\)$' % (dem(ts), dem(ts)),
                        digits_contract(t, base), harness=harness_buf(None, t, cap + 2, base=base), harness_pre=pre, prop=PROP, skip_this=False,
                        inputs=['vp_in1', 'vp_in2'], shim=sname, shim_types=['u64', ts], oracle=lambda n, v: ('value', 1),
                        unwind=cap + 3, timeout=1800 if heavy else 600, mem_gb=28 if heavy else 12, solvers=('kissat', 'cadical') if heavy else ('minisat',), layer=1))
    k = Kernel(kname, ''.join(src), [], 'integer text')
    meta = {'instantiations': len(jobs),
            'explanation': 'digit-by-digit characterisation of the canonical numeral with one ghost index (no quantifier), recursion unwound completely',
            'not_applicable_parts': ['scaled_integer text (layout selection fixed/scientific, truncation): needs a decimal parser as a spec function over an input-dependent layout; not built',
                                     'int32_t, 64/128-bit and wide integers: 10-20+ levels of 32/64-bit division by 10 against the spec dividers (int32_t: solver timeout at 1800 s); not claimed',
                                     'to_string / operator<< (std::string, iostreams)', 'the lowest value of int32/int64 (C13 known finding)'],
            'assumptions': ['bases 10, 16 and 2 (quick); 3, 8, 11 and 36 added in the thorough tier; other bases not instantiated']}
    return {'kernels': [k], 'jobs': jobs, 'meta': meta}

"""C18 -- bit and digit-counting utilities match the C++20 <bit> definitions for every value.

Functions under contract: every function template of cnl/bit.h and the digit counters of cnl/numeric.h,
each instantiated at 8/16/32/64/128 bits, under both configurations (Clang paths: generic recursion
and __builtin_clz/popcount specialisations; GCC paths (-U__clang__): additionally __builtin_ctz/clrsb).
Spec functions are closed bit-vector characterisations of the C++20 definitions (no builtin in the spec).
Recursive definitions are proved by complete unwinding (depth <= width+1, unwinding assertions on).
"""
import re

from vplib import cxxtypes as CT
from vplib.speclib import KERNEL_HEAD, T, cxx, dem, Contract, Job, Kernel, shim

PROP = 'C18'
RET = '((int32_t)$RET)'


def U(t):
    """C unsigned type wide enough to compute on N-bit values without promotion surprises"""
    return 'vp_u128' if t.bits == 128 else 'uint64_t'


def x_(t, e='a0'):
    return '((%s)%s)' % (U(t), e)


def bitlen_is(r, x, t):
    """r == bit length of unsigned x (0 for 0): 0 <= r <= N and x < 2^r and (r == 0 || x >= 2^(r-1))"""
    N = t.bits
    u = U(t)
    return ('(%s >= 0 && %s <= %d && (%s == %d || (%s >> (%s %% %d)) == 0) && (%s == 0 || ((%s >> ((%s - 1) %% %d)) & 1) == 1))'
            % (r, r, N, r, N, x, r, N, r, x, r, N))


def clz_is(r, x, t):
    N = t.bits
    return bitlen_is('(%d - %s)' % (N, r), x, t)


def ctz_is(r, x, t):
    N = t.bits
    u = U(t)
    one = '((%s)1)' % u
    return ('(%s >= 0 && %s <= %d && (%s == %d ? %s == 0 : (((%s >> (%s %% %d)) & 1) == 1 && (%s & ((%s << (%s %% %d)) - 1)) == 0)))'
            % (r, r, N, r, N, x, x, r, N, x, one, r, N))


def popcount_expr(x, t):
    return '(' + ' + '.join('(int)((%s >> %d) & 1)' % (x, i) for i in range(t.bits)) + ')'


def mask(t):
    return '((%s)~(%s)0 >> %d)' % (U(t), U(t), (128 if t.bits == 128 else 64) - t.bits)


def not_(x, t):
    return '((~%s) & %s)' % (x, mask(t))


def py_bitlen(v):
    return v.bit_length()


FUNCS = {}


def F(name, signed=False):
    def deco(fn):
        FUNCS[name] = (fn, signed)
        return fn
    return deco


@F('countl_zero')
def _(t):
    x = x_(t)
    return [clz_is(RET, x, t)], lambda v: t.bits - py_bitlen(v)


@F('countl_one')
def _(t):
    x = not_(x_(t), t)
    return [clz_is(RET, x, t)], lambda v: t.bits - py_bitlen(~v & ((1 << t.bits) - 1))


@F('countr_zero')
def _(t):
    return [ctz_is(RET, x_(t), t)], lambda v: (v & -v).bit_length() - 1 if v else t.bits


@F('countr_one')
def _(t):
    x = not_(x_(t), t)

    def o(v):
        w = ~v & ((1 << t.bits) - 1)
        return (w & -w).bit_length() - 1 if w else t.bits
    return [ctz_is(RET, x, t)], o


@F('popcount')
def _(t):
    return ['%s == %s' % (RET, popcount_expr(x_(t), t))], lambda v: bin(v).count('1')


@F('ispow2')
def _(t):
    return ['($RET != 0) == (%s == 1)' % popcount_expr(x_(t), t)], lambda v: 1 if bin(v).count('1') == 1 else 0


@F('floor2')
def _(t):
    x = x_(t)
    r = '((%s)$RET)' % U(t)
    return ['%s == 0 ==> %s == 0' % (x, r),
            '%s != 0 ==> (%s == 1 && %s <= %s && (%s >> 1) < %s)' % (x, popcount_expr(r, t), r, x, x, r)], \
        lambda v: (1 << (v.bit_length() - 1)) if v else 0


@F('ceil2')
def _(t):
    x = x_(t)
    r = '((%s)$RET)' % U(t)
    top = '(((%s)1) << %d)' % (U(t), t.bits - 1)
    # std::bit_ceil is undefined when the result is not representable: x <= 2^(N-1) required; ceil2(0)==0 is the documented deviation
    return ['%s == 0 ==> %s == 0' % (x, r),
            '%s != 0 ==> (%s == 1 && %s >= %s && (%s >> 1) < %s)' % (x, popcount_expr(r, t), r, x, r, x)], \
        lambda v: (1 << (v - 1).bit_length()) if v else 0


@F('log2p1')
def _(t):
    return [bitlen_is(RET, x_(t), t)], lambda v: v.bit_length()


def fold_signed(t, e='a0'):
    """value bits of the two's complement form: v >= 0 ? v : -v-1 == ~v, as unsigned N-bit"""
    x = x_(t, e)
    sign = '((%s >> %d) & 1)' % (x, t.bits - 1)
    return '(%s ? %s : %s)' % (sign, not_(x, t), x)


@F('countl_rsb', signed=True)
def _(t):
    return [clz_is('(%s + 1)' % RET, fold_signed(t), t)], lambda v: t.bits - py_bitlen(v if v >= 0 else -v - 1) - 1


@F('countl_rb')
def _(t):
    if t.signed:
        return [clz_is('(%s + 1)' % RET, fold_signed(t), t)], lambda v: t.bits - py_bitlen(v if v >= 0 else -v - 1) - 1
    return [clz_is(RET, x_(t), t)], lambda v: t.bits - py_bitlen(v)


@F('countr_used')
def _(t):
    if t.signed:
        return [bitlen_is(RET, fold_signed(t), t)], lambda v: py_bitlen(v if v >= 0 else -v - 1)
    return [bitlen_is(RET, x_(t), t)], lambda v: py_bitlen(v)


def plan(tier):
    thorough = tier == 'thorough'
    uns = ['u8', 'u16', 'u32', 'u64'] + (['u128'] if thorough else [])
    sig = ['i8', 'i16', 'i32', 'i64'] + (['i128'] if thorough else [])
    src = {'clang': [KERNEL_HEAD, '#include <cnl/bit.h>\n#include <cnl/numeric.h>\n'], 'gcc': [KERNEL_HEAD, '#include <cnl/bit.h>\n#include <cnl/numeric.h>\n']}
    jobs = []
    inst = 0
    for cfg in ('clang', 'gcc'):
        kname = 'C18_' + cfg
        for fname, (fn, signed_only) in FUNCS.items():
            if fname in ('countl_rb', 'countr_used'):
                types = uns + sig
            elif signed_only:
                types = sig
            else:
                types = uns
            for ts in types:
                t = T(ts)
                ens, oracle = fn(t)
                req = []
                if fname == 'ceil2':
                    req = ['%s <= (((%s)1) << %d)' % (x_(t), U(t), t.bits - 1)]
                sname = 'vp_%s_%s' % (fname, ts)
                src[cfg].append(shim('int' if fname not in ('floor2', 'ceil2', 'ispow2') else ('bool' if fname == 'ispow2' else ts),
                                     sname, [(ts, 'a')], 'return cnl::%s(a);' % fname))
                pat = r'^\S+ cnl::%s<%s>\(%s\)$' % (fname, dem(ts), dem(ts))

                def orc(oracle, fname, t):
                    def o(v):
                        if fname == 'ceil2' and v > (1 << (t.bits - 1)):
                            return None
                        return ('value', oracle(v))
                    return o
                jobs.append(Job('%s.%s.%s.%s' % (PROP, cfg, fname, ts), kname, pat,
                                Contract(requires=req, ensures=ens, assigns=[]),
                                shim=sname, shim_types=[ts], oracle=orc(oracle, fname, t), prop=PROP,
                                unwind=t.bits + 3, timeout=300, layer=0, skip_this=False))
                inst += 1
        # rotations: all counts (symbolic unsigned int), result per the C++20 definition
        for ts in uns:
            t = T(ts)
            N = t.bits
            for fname in ('rotl', 'rotr'):
                x = x_(t)
                s = '((unsigned)(a1 %% %d))' % N
                u = U(t)
                if fname == 'rotl':
                    e = '(%s == 0 ? %s : (((%s << %s) | (%s >> (%d - %s))) & %s))' % (s, x, x, s, x, N, s, mask(t))
                else:
                    e = '(%s == 0 ? %s : (((%s >> %s) | (%s << (%d - %s))) & %s))' % (s, x, x, s, x, N, s, mask(t))
                sname = 'vp_%s_%s' % (fname, ts)
                src[cfg].append(shim(ts, sname, [(ts, 'a'), ('u32', 's')], 'return cnl::%s(a, s);' % fname))
                pat = r'^auto cnl::%s<%s>\(%s, unsigned int\)$' % (fname, dem(ts), dem(ts))

                def orc(fname, N):
                    def o(v, s):
                        s %= N
                        m = (1 << N) - 1
                        if fname == 'rotl':
                            return ('value', ((v << s) | (v >> (N - s))) & m if s else v)
                        return ('value', ((v >> s) | (v << (N - s))) & m if s else v)
                    return o
                jobs.append(Job('%s.%s.%s.%s' % (PROP, cfg, fname, ts), kname, pat,
                                Contract(requires=[], ensures=['((%s)$RET) == %s' % (u, e)], assigns=[]),
                                shim=sname, shim_types=[ts, 'u32'], oracle=orc(fname, N), prop=PROP, timeout=300, skip_this=False))
                inst += 1
        # digit counters of numeric.h
        for ts in uns + sig:
            t = T(ts)
            N = t.bits
            val = fold_signed(t, '(*a0)') if t.signed else x_(t, '(*a0)')
            # used_digits(value, radix = 2)
            sname = 'vp_used_digits_%s' % ts
            src[cfg].append(shim('int', sname, [(ts, 'a')], 'return cnl::used_digits(a);'))
            pat = r'^auto cnl::used_digits<%s>\(%s const&, int\)$' % (dem(ts), dem(ts))
            jobs.append(Job('%s.%s.used_digits.%s' % (PROP, cfg, ts), kname, pat,
                            Contract(requires=['a1 == 2'], ensures=[bitlen_is(RET, val, t)], assigns=[]),
                            harness_pre='vp_in1 = 2;', cex_filter=lambda l: l[:1],
                            shim=sname, shim_types=[ts], oracle=(lambda v: ('value', py_bitlen(v if v >= 0 else -v - 1))), prop=PROP,
                            unwind=N + 3, timeout=300, skip_this=False))
            sname = 'vp_leading_bits_%s' % ts
            src[cfg].append(shim('int', sname, [(ts, 'a')], 'return cnl::leading_bits(a);'))
            pat = r'^auto cnl::leading_bits<%s>\(%s const&\)$' % (dem(ts), dem(ts))
            jobs.append(Job('%s.%s.leading_bits.%s' % (PROP, cfg, ts), kname, pat,
                            Contract(requires=[], ensures=[bitlen_is('(%d - %s)' % (t.digits, RET), val, t)], assigns=[]),
                            shim=sname, shim_types=[ts], oracle=(lambda t: lambda v: ('value', t.digits - py_bitlen(v if v >= 0 else -v - 1)))(t), prop=PROP,
                            unwind=N + 3, timeout=300, skip_this=False))
            sname = 'vp_trailing_bits_%s' % ts
            src[cfg].append(shim('int', sname, [(ts, 'a')], 'return cnl::trailing_bits(a);'))
            pat = r'^auto cnl::trailing_bits<%s>\(%s const&\)$' % (dem(ts), dem(ts))
            xx = x_(t, '(*a0)')
            jobs.append(Job('%s.%s.trailing_bits.%s' % (PROP, cfg, ts), kname, pat,
                            Contract(requires=[], ensures=['%s == 0 ==> %s == 0' % (xx, RET), '%s != 0 ==> %s' % (xx, ctz_is(RET, xx, t))], assigns=[]),
                            shim=sname, shim_types=[ts],
                            oracle=(lambda t: lambda v: ('value', ((v & -v).bit_length() - 1) if v else 0))(t), prop=PROP,
                            unwind=N + 3, timeout=300, skip_this=False))
            inst += 3
    kernels = [Kernel('C18_clang', ''.join(src['clang']), [], 'Clang paths'),
               Kernel('C18_gcc', ''.join(src['gcc']), ['-U__clang__'], 'GCC paths (intrinsic specialisations incl. __builtin_ctz / __builtin_clrsb)')]
    meta = {'instantiations': inst,
            'explanation': 'each bit utility proved equal to a closed bit-vector characterisation of the C++20 <bit> definition, for all values of each width; recursion closed by complete unwinding',
            'not_applicable_parts': ['std::bit_ceil is undefined when the result is not representable: ceil2 is specified for x <= 2^(N-1) only'],
            'assumptions': []}
    return {'kernels': kernels, 'jobs': jobs, 'meta': meta}

"""C18 -- bit and digit-counting utilities match the C++20 <bit> definitions for every value.

Functions under contract: every function template of cnl/bit.h and the digit counters of cnl/numeric.h,
each instantiated at 8/16/32/64/128 bits, under both configurations (Clang paths: generic recursion
and __builtin_clz/popcount specialisations; GCC paths (-U__clang__): additionally __builtin_ctz/clrsb).
Spec functions are closed bit-vector characterisations of the C++20 definitions (no builtin in the spec).
Recursive definitions are proved by complete unwinding (depth <= width+1, unwinding assertions on).
"""
import re

from vplib import cxxtypes as CT
from vplib.speclib import KERNEL_HEAD, T, cxx, dem, Contract, Job, Kernel, shim

PROP = 'C18'
RET = '((int32_t)$RET)'


def U(t):
    """C unsigned type wide enough to compute on N-bit values without promotion surprises"""
    return 'vp_u128' if t.bits == 128 else 'uint64_t'


def x_(t, e='a0'):
    if t.bits == 128 and e == 'a0':
        # a by-value __int128 argument is passed as two 64-bit halves (x86-64 ABI): a0 = low, a1 = high
        return '((((vp_u128)a1) << 64) | (vp_u128)a0)'
    return '((%s)%s)' % (U(t), e)


def bitlen_is(r, x, t):
    """r == bit length of unsigned x (0 for 0): 0 <= r <= N and x < 2^r and (r == 0 || x >= 2^(r-1))"""
    N = t.bits
    u = U(t)
    return ('(%s >= 0 && %s <= %d && (%s == %d || (%s >> (%s %% %d)) == 0) && (%s == 0 || ((%s >> ((%s - 1) %% %d)) & 1) == 1))'
            % (r, r, N, r, N, x, r, N, r, x, r, N))


def clz_is(r, x, t, off=0):
    """(r + off) == N - bitlen(x); the range guard comes first so that the spec arithmetic cannot wrap"""
    N = t.bits
    return '(%s >= %d && %s <= %d && %s)' % (r, -off, r, N - off, bitlen_is('(%d - %s)' % (N - off, r), x, t))


def ctz_is(r, x, t):
    N = t.bits
    u = U(t)
    one = '((%s)1)' % u
    return ('(%s >= 0 && %s <= %d && (%s == %d ? %s == 0 : (((%s >> (%s %% %d)) & 1) == 1 && (%s & ((%s << (%s %% %d)) - 1)) == 0)))'
            % (r, r, N, r, N, x, x, r, N, x, one, r, N))


def popcount_expr(x, t):
    return '(' + ' + '.join('(int)((%s >> %d) & 1)' % (x, i) for i in range(t.bits)) + ')'


def mask(t):
    return '((%s)~(%s)0 >> %d)' % (U(t), U(t), (128 if t.bits == 128 else 64) - t.bits)


def not_(x, t):
    return '((~%s) & %s)' % (x, mask(t))


def py_bitlen(v):
    return v.bit_length()


FUNCS = {}


def F(name, signed=False):
    def deco(fn):
        FUNCS[name] = (fn, signed)
        return fn
    return deco


@F('countl_zero')
def _(t, e='a0'):
    x = x_(t, e)
    return [clz_is(RET, x, t)], lambda v: t.bits - py_bitlen(v)


@F('countl_one')
def _(t, e='a0'):
    x = not_(x_(t, e), t)
    return [clz_is(RET, x, t)], lambda v: t.bits - py_bitlen(~v & ((1 << t.bits) - 1))


@F('countr_zero')
def _(t, e='a0'):
    return [ctz_is(RET, x_(t, e), t)], lambda v: (v & -v).bit_length() - 1 if v else t.bits


@F('countr_one')
def _(t, e='a0'):
    x = not_(x_(t, e), t)

    def o(v):
        w = ~v & ((1 << t.bits) - 1)
        return (w & -w).bit_length() - 1 if w else t.bits
    return [ctz_is(RET, x, t)], o


@F('popcount')
def _(t, e='a0'):
    return ['%s == %s' % (RET, popcount_expr(x_(t, e), t))], lambda v: bin(v).count('1')


@F('ispow2')
def _(t, e='a0'):
    return ['($RET != 0) == (%s == 1)' % popcount_expr(x_(t, e), t)], lambda v: 1 if bin(v).count('1') == 1 else 0


@F('floor2')
def _(t, e='a0'):
    x = x_(t, e)
    r = '((%s)$RET)' % U(t)
    return ['%s == 0 ==> %s == 0' % (x, r),
            '%s != 0 ==> (%s == 1 && %s <= %s && (%s >> 1) < %s)' % (x, popcount_expr(r, t), r, x, x, r)], \
        lambda v: (1 << (v.bit_length() - 1)) if v else 0


@F('ceil2')
def _(t, e='a0'):
    x = x_(t, e)
    r = '((%s)$RET)' % U(t)
    top = '(((%s)1) << %d)' % (U(t), t.bits - 1)
    # std::bit_ceil is undefined when the result is not representable: x <= 2^(N-1) required; ceil2(0)==0 is the documented deviation
    return ['%s == 0 ==> %s == 0' % (x, r),
            '%s != 0 ==> (%s == 1 && %s >= %s && (%s >> 1) < %s)' % (x, popcount_expr(r, t), r, x, r, x)], \
        lambda v: (1 << (v - 1).bit_length()) if v else 0


@F('log2p1')
def _(t, e='a0'):
    return [bitlen_is(RET, x_(t, e), t)], lambda v: v.bit_length()


def fold_signed(t, e='a0'):
    """value bits of the two's complement form: v >= 0 ? v : -v-1 == ~v, as unsigned N-bit"""
    x = x_(t, e)
    sign = '((%s >> %d) & 1)' % (x, t.bits - 1)
    return '(%s ? %s : %s)' % (sign, not_(x, t), x)


@F('countl_rsb', signed=True)
def _(t, e='a0'):
    return [clz_is(RET, fold_signed(t, e), t, 1)], lambda v: t.bits - py_bitlen(v if v >= 0 else -v - 1) - 1


@F('countl_rb')
def _(t, e='a0'):
    if t.signed:
        return [clz_is(RET, fold_signed(t, e), t, 1)], lambda v: t.bits - py_bitlen(v if v >= 0 else -v - 1) - 1
    return [clz_is(RET, x_(t, e), t)], lambda v: t.bits - py_bitlen(v)


@F('countr_used')
def _(t, e='a0'):
    if t.signed:
        return [bitlen_is(RET, fold_signed(t, e), t)], lambda v: py_bitlen(v if v >= 0 else -v - 1)
    return [bitlen_is(RET, x_(t, e), t)], lambda v: py_bitlen(v)



def unsigned_of(ts):
    return 'u' + ts[1:]


def table(types_u, types_s):
    """(key, demangled-name pattern, Contract, shim body or None, oracle, shim types, ret) for every function under contract"""
    rows = []

    def add(key, pat, contract, call=None, oracle=None, types=None, ret='int', **kw):
        rows.append(dict(key=key, pat=pat, contract=contract, call=call, oracle=oracle, types=types, ret=ret, kw=kw))

    for fname, (fn, signed_only) in FUNCS.items():
        if fname in ('countl_rb', 'countr_used'):
            types = types_u + types_s
        elif signed_only:
            types = types_s
        else:
            types = types_u
        for ts in types:
            t = T(ts)
            if t.bits == 128 and fname in ('popcount', 'ispow2'):
                continue      # inductive step popcount(x) = popcount(x & (x-1)) + 1 against the bit-sum spec: no answer in 300 s at 128 bits
            ens, oracle = fn(t)
            req = []
            if fname == 'ceil2':
                req = ['%s <= (((%s)1) << %d)' % (x_(t), U(t), t.bits - 1)]

            def orc(oracle, fname, t):
                def o(v):
                    if fname == 'ceil2' and v > (1 << (t.bits - 1)):
                        return None
                    return ('value', oracle(v))
                return o
            ret = 'int' if fname not in ('floor2', 'ceil2', 'ispow2') else ('bool' if fname == 'ispow2' else ts)
            add('%s.%s' % (fname, ts), r'^\S+ cnl::%s<%s>\(%s\)$' % (fname, dem(ts), dem(ts)),
                Contract(requires=req, ensures=ens, assigns=[]), 'return cnl::%s(a);' % fname, orc(oracle, fname, t), [ts], ret)
    ti = T('i32')
    add('popcount.promoted_int', r'^int cnl::popcount<int>\\(int\\)$',
        Contract(requires=['(int32_t)a0 >= 0'], ensures=FUNCS['popcount'][0](ti)[0], assigns=[]))
    add('countr_one.promoted_int', r'^int cnl::countr_one<int>\\(int\\)$',
        Contract(requires=['(int32_t)a0 >= 0'], ensures=FUNCS['countr_one'][0](ti)[0], assigns=[]))
    # recursive helper of countr_zero: defined for x != 0 only (its caller guards)
    for ts in types_u:
        t = T(ts)
        ens, oracle = FUNCS['countr_zero'][0](t)
        add('_bit_impl.countr_zero.%s' % ts, r'^int cnl::_bit_impl::countr_zero<%s>\(%s\)$' % (dem(ts), dem(ts)),
            Contract(requires=['%s != 0' % x_(t)], ensures=ens, assigns=[]))
    # countl_rb functor
    for ts in types_u + types_s:
        t = T(ts)
        ens, oracle = FUNCS['countl_rb'][0](t, '(*a1)')
        add('_bit_impl.countl_rb.%s' % ts, r'cnl::_bit_impl::countl_rb<%s>::operator\(\)<%s>\(%s const&\) const$' % ('true' if t.signed else 'false', dem(ts), dem(ts)),
            Contract(requires=[], ensures=ens, assigns=[]))
    # rotations
    for ts in types_u:
        t = T(ts)
        N = t.bits
        u = U(t)
        for fname in ('rotl', 'rotr'):
            x = x_(t)
            for inner in (False, True):
                s = '((unsigned)(%s %% %d))' % ('a2' if N == 128 else 'a1', N)
                if fname == 'rotl':
                    e = '(%s == 0 ? %s : (((%s << %s) | (%s >> (%d - %s))) & %s))' % (s, x, x, s, x, N, s, mask(t))
                else:
                    e = '(%s == 0 ? %s : (((%s >> %s) | (%s << (%d - %s))) & %s))' % (s, x, x, s, x, N, s, mask(t))

                def orc(fname, N):
                    def o(v, s):
                        s %= N
                        m = (1 << N) - 1
                        if fname == 'rotl':
                            return ('value', ((v << s) | (v >> (N - s))) & m if s else v)
                        return ('value', ((v >> s) | (v << (N - s))) & m if s else v)
                    return o
                if inner:
                    add('_bit_impl.%s.%s' % (fname, ts), r'^auto cnl::_bit_impl::%s<%s>\(%s, unsigned int, unsigned int\)$' % (fname, dem(ts), dem(ts)),
                        Contract(requires=['%s == %d' % ('a3' if N == 128 else 'a2', N)], ensures=['((%s)$RET) == %s' % (u, e)], assigns=[]),
                        'return cnl::_bit_impl::%s(a, s, %du);' % (fname, N), orc(fname, N), [ts, 'u32'], ts,
                        harness_pre='vp_in%d = %d;' % (3 if N == 128 else 2, N), cex_filter=lambda l: l[:2])
                else:
                    add('%s.%s' % (fname, ts), r'^auto cnl::%s<%s>\(%s, unsigned int\)$' % (fname, dem(ts), dem(ts)),
                        Contract(requires=[], ensures=['((%s)$RET) == %s' % (u, e)], assigns=[]),
                        'return cnl::%s(a, s);' % fname, orc(fname, N), [ts, 'u32'], ts)
    # digit counters
    for ts in types_u + types_s:
        t = T(ts)
        N = t.bits
        val = fold_signed(t, '(*a0)') if t.signed else x_(t, '(*a0)')
        val1 = fold_signed(t, '(*a1)') if t.signed else x_(t, '(*a1)')
        pb = (lambda v: py_bitlen(v if v >= 0 else -v - 1))
        add('used_digits_signed.%s' % ts,
            r'cnl::_impl::used_digits_signed<%s>::operator\(\)<%s>\(%s const&, int\) const$' % ('true' if t.signed else 'false', dem(ts), dem(ts)),
            Contract(requires=['a2 == 2'] + ([] if t.signed else []), ensures=[bitlen_is(RET, val1, t)], assigns=[]),
            harness_pre='vp_in2 = 2;')
        if t.signed:
            # the signed functor calls the unsigned functor instantiated on the *signed* type with a non-negative value
            add('used_digits_unsigned_on.%s' % ts,
                r'cnl::_impl::used_digits_signed<false>::operator\(\)<%s>\(%s const&, int\) const$' % (dem(ts), dem(ts)),
                Contract(requires=['a2 == 2', '(%s)(*a1) >= 0' % t.sctype], ensures=[bitlen_is(RET, x_(t, '(*a1)'), t)], assigns=[]),
                harness_pre='vp_in2 = 2;')
        add('used_digits.%s' % ts, r'^auto cnl::used_digits<%s>\(%s const&, int\)$' % (dem(ts), dem(ts)),
            Contract(requires=['a1 == 2'], ensures=[bitlen_is(RET, val, t)], assigns=[]),
            'return cnl::used_digits(a);', (lambda v: ('value', py_bitlen(v if v >= 0 else -v - 1))), [ts], 'int',
            harness_pre='vp_in1 = 2;', cex_filter=lambda l: l[:1])
        add('leading_bits.%s' % ts, r'^auto cnl::leading_bits<%s>\(%s const&\)$' % (dem(ts), dem(ts)),
            Contract(requires=[], ensures=['(%s >= 0 && %s <= %d && %s)' % (RET, RET, t.digits, bitlen_is('(%d - %s)' % (t.digits, RET), val, t))], assigns=[]),
            'return cnl::leading_bits(a);', (lambda t: lambda v: ('value', t.digits - py_bitlen(v if v >= 0 else -v - 1)))(t), [ts], 'int')
        xx = x_(t, '(*a0)')
        add('trailing_bits.%s' % ts, r'^auto cnl::trailing_bits<%s>\(%s const&\)$' % (dem(ts), dem(ts)),
            Contract(requires=[], ensures=['%s == 0 ==> %s == 0' % (xx, RET), '%s != 0 ==> %s' % (xx, ctz_is(RET, xx, t))], assigns=[]),
            'return cnl::trailing_bits(a);', (lambda t: lambda v: ('value', (((v % (1 << t.bits)) & -(v % (1 << t.bits))).bit_length() - 1) if v else 0))(t), [ts], 'int')
    return rows


def plan(tier):
    thorough = tier == 'thorough'
    # 'u64l'/'i64l' = unsigned long long / long long: distinct intrinsic specialisations from unsigned long / long on LP64
    uns = ['u8', 'u16', 'u32', 'u64', 'u64l'] + (['u128'] if thorough else [])
    sig = ['i8', 'i16', 'i32', 'i64', 'i64l'] + (['i128'] if thorough else [])
    rows = table(uns, sig)
    head = KERNEL_HEAD + '#include <cnl/bit.h>\n#include <cnl/numeric.h>\n'
    src = {'clang': [head], 'gcc': [head]}
    jobs = []
    for cfg in ('clang', 'gcc'):
        kname = 'C18_' + cfg
        repl_all = [(r['pat'], r['contract']) for r in rows]
        for r in rows:
            sname = None
            if r['call']:
                sname = 'vp_' + r['key'].replace('.', '_')
                params = list(zip(r['types'], 'as'))
                src[cfg].append(shim(r['ret'], sname, params, r['call']))
            kw = dict(r['kw'])
            jobs.append(Job('%s.%s.%s' % (PROP, cfg, r['key']), kname, r['pat'], r['contract'],
                            replace=[x for x in repl_all if x[0] != r['pat']],
                            shim=sname, shim_types=r['types'], oracle=r['oracle'], prop=PROP,
                            timeout=300, skip_this=None, optional=True, unwind=70, **kw))
    kernels = [Kernel('C18_clang', ''.join(src['clang']), [], 'Clang paths'),
               Kernel('C18_gcc', ''.join(src['gcc']), ['-U__clang__'], 'GCC paths (intrinsic specialisations incl. __builtin_ctz / __builtin_clrsb)')]
    meta = {'instantiations': len(rows) * 2,
            'explanation': 'each bit utility proved equal to a closed bit-vector characterisation of the C++20 <bit> definition for all values of each width; '
                           'recursive definitions proved inductively (goto-instrument --enforce-contract-rec: the recursive call is replaced by the contract under proof), '
                           'callers proved against callee contracts',
            'not_applicable_parts': ['popcount / ispow2 at 128 bits (inductive step beyond the SAT budget)', 'std::bit_ceil is undefined when the result is not representable: ceil2 is specified for x <= 2^(N-1) only',
                                     'termination of the recursive definitions is not proved by the inductive route (partial correctness); '
                                     'depth is bounded by the operand width by inspection of the shift in each recursive call'],
            'assumptions': []}
    return {'kernels': kernels, 'jobs': jobs, 'meta': meta}

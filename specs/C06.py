"""C06 -- overflow is detected exactly and handled as the tag specifies.

Layers (leaf first):
  L0  cnl::_impl::is_overflow<Op, polarity>::operator()<...>            portable predicates (Clang paths)
  L0  cnl::_impl::overflow_operator<Op, Tag, polarity>::operator()      per-tag reaction
  L0g cnl::_impl::builtin_overflow_operator<Op,L,R>::operator()         intrinsic (GCC paths, -U__clang__)
  L0g cnl::_impl::overflow_polarity<Op>::operator()                     polarity guess (GCC paths)
  L1  cnl::custom_operator<Op, op_value<L,Tag>, op_value<R,Tag>>::operator()   L0 replaced by contract
  L2  public operators on cnl::overflow_integer<Rep, Tag>               L1 replaced by contract
Every postcondition is the property statement: overflow handling iff the exact result is outside
the range of the result type; saturated -> nearest bound, trapping/throwing -> signal, else exact result.
"""
import re

from vplib import cxxtypes as CT
from vplib.speclib import (KERNEL_HEAD, POL, POLNUM, T, cxx, dem, W, wval, wconst, ret_val,
                           Contract, Job, Kernel, shim, trunc_div)

PROP = 'C06'
TAGS = {'sat': 'cnl::saturated_overflow_tag', 'trap': 'cnl::trapping_overflow_tag', 'throw': 'cnl::_impl::throwing_overflow_tag'}
OPCLS = {'add': 'add_op', 'subtract': 'subtract_op', 'multiply': 'multiply_op', 'divide': 'divide_op',
         'shift_left': 'shift_left_op', 'minus': 'minus_op', 'convert': 'convert_op'}
SYM = {'add': '+', 'subtract': '-', 'multiply': '*'}


class OpInst:
    """one instantiation of a checked operation on built-in operands"""

    def __init__(self, op, types, dest=None):
        self.op = op
        self.types = list(types)             # operand short type names
        self.dest = dest                     # convert only
        ts = [T(x) for x in types]
        if op in ('add', 'subtract', 'multiply', 'divide'):
            self.res = CT.common(ts[0], ts[1])
        elif op == 'shift_left':
            self.res = CT.promote(ts[0])
        elif op == 'minus':
            self.res = CT.promote(ts[0])
        elif op == 'convert':
            self.res = T(dest)
        self.ts = ts
        self.tag = '_'.join(([dest] if dest else []) + self.types)
        # spec vector width: wide enough for the exact result and both bounds
        b = [t.bits for t in ts] + [self.res.bits]
        if op == 'multiply':
            self.w = max(ts[0].bits + ts[1].bits, self.res.bits) + 3
        elif op == 'shift_left':
            self.w = ts[0].bits + self.res.bits + 3
        else:
            self.w = max(b) + 3

    # template-argument spelling of operator()<...>
    def targs(self):
        if self.op == 'convert':
            return '%s, %s' % (dem(self.dest), dem(self.types[0]))
        return ', '.join(dem(t) for t in self.types)

    def requires(self, args):
        """domain restrictions taken from the statement (zero divisor, negative shift count)"""
        if self.op == 'divide':
            return ['%s != 0' % args[1]]
        if self.op == 'shift_left' and self.ts[1].signed:
            return ['(%s)%s >= 0' % (self.ts[1].sctype, args[1])]
        return []

    def hi_lo(self, args):
        """C expressions (hi, lo, exact) over unsigned-storage argument expressions"""
        w = self.w
        v = [wval(a, t, w) for a, t in zip(args, self.ts)]
        mx, mn = wconst(self.res.max, w), wconst(self.res.min, w)
        if self.op in SYM:
            ex = '(%s %s %s)' % (v[0], SYM[self.op], v[1])
        elif self.op == 'divide':
            ex = '(%s / %s)' % (v[0], v[1])
        elif self.op == 'minus':
            ex = '(-%s)' % v[0]
        elif self.op == 'convert':
            ex = v[0]
        elif self.op == 'shift_left':
            D = self.res.bits
            cnt = args[1]
            big = '(%s >= %d)' % (cnt, D)
            sh = '(%s << (%s %% %d))' % (v[0], cnt, D)        # only used under !big
            hi = '(%s > 0 && (%s || %s > %s))' % (v[0], big, sh, mx)
            lo = '(%s < 0 && (%s || %s < %s))' % (v[0], big, sh, mn)
            # when neither holds: 0 << anything == 0, else count < D and the shifted value is exact
            ex = '(%s == 0 ? %s : %s)' % (v[0], wconst(0, w), sh)
            return hi, lo, ex
        else:
            raise KeyError(self.op)
        return '(%s > %s)' % (ex, mx), '(%s < %s)' % (ex, mn), ex

    def py_exact(self, *a):
        op = self.op
        if op == 'add':
            return a[0] + a[1]
        if op == 'subtract':
            return a[0] - a[1]
        if op == 'multiply':
            return a[0] * a[1]
        if op == 'divide':
            return trunc_div(a[0], a[1])
        if op == 'minus':
            return -a[0]
        if op == 'convert':
            return a[0]
        if op == 'shift_left':
            return a[0] << a[1]
        raise KeyError(op)

    def py_domain(self, *a):
        if self.op == 'divide':
            return a[1] != 0
        if self.op == 'shift_left':
            return 0 <= a[1] < 4096
        return True

    def nargs(self):
        return len(self.types)

    def possible(self, pol):
        """can the exact result leave the result range on this side at all (interval corners)?"""
        import itertools
        cs = []
        for t in self.ts:
            c = {t.min, t.max}
            for k in (-1, 0, 1, 2):
                if t.min <= k <= t.max:
                    c.add(k)
            cs.append(sorted(c))
        if self.op == 'shift_left':
            cs[1] = [x for x in cs[1] if x >= 0] + [self.res.bits - 1, self.res.bits]
        for a in itertools.product(*cs):
            if not self.py_domain(*a):
                continue
            e = self.py_exact(*a)
            if (pol == 'pos' and e > self.res.max) or (pol == 'neg' and e < self.res.min):
                return True
        return False

    def callexpr(self, functor):
        names = 'ab'[:self.nargs()]
        if self.op == 'convert':
            return '%s.template operator()<%s>(a)' % (functor, cxx(self.dest))
        return '%s(%s)' % (functor, ', '.join(names))

    def params(self):
        return list(zip(self.types, 'ab'))


def ptr_args(oi, first=1):
    return ['(*a%d)' % (first + i) for i in range(oi.nargs())]


def in_args(oi, first=1):
    return ['vp_in%d' % (first + i) for i in range(oi.nargs())]


# ----------------------------------------------------------------------------- L0: is_overflow

def isov_pattern(oi, pol):
    return (r'cnl::_impl::is_overflow<cnl::_impl::%s, \(cnl::_impl::polarity\)%s>::operator\(\)<%s>\(' %
            (OPCLS[oi.op], POLNUM[pol], oi.targs()))


def isov_contract(oi, pol):
    hi, lo, ex = oi.hi_lo(ptr_args(oi))
    return Contract(requires=oi.requires(ptr_args(oi)),
                    ensures=['$RET == %s' % (hi if pol == 'pos' else lo)], assigns=[],
                    note='returns true iff the exact result is %s the range of %s' % ('above' if pol == 'pos' else 'below', oi.res.name))


def isov_oracle(oi, pol):
    def o(*a):
        if not oi.py_domain(*a):
            return None
        e = oi.py_exact(*a)
        return ('value', 1 if (e > oi.res.max if pol == 'pos' else e < oi.res.min) else 0)
    return o


# ----------------------------------------------------------------------------- L0: overflow_operator

def ovop_pattern(oi, tag, pol):
    return (r'cnl::_impl::overflow_operator<cnl::_impl::%s, %s, \(cnl::_impl::polarity\)%s>::operator\(\)<%s>\(' %
            (OPCLS[oi.op], re.escape(TAGS[tag]), POLNUM[pol], oi.targs()))


def ovop_contract(oi, tag, pol):
    hi, lo, ex = oi.hi_lo(ptr_args(oi))
    cond = hi if pol == 'pos' else lo
    if tag == 'sat':
        bound = oi.res.max if pol == 'pos' else oi.res.min
        return Contract(requires=oi.requires(ptr_args(oi)) + [cond],
                        ensures=['%s == %s' % (ret_val(oi.res, oi.w), wconst(bound, oi.w))], assigns=[],
                        note='saturated: yields the bound on its side; callable only on that side')
    return Contract(requires=oi.requires(ptr_args(oi)) + [cond], ensures=['0'], assigns=[], noreturn=True,
                    note='%s: never returns (signals); callable only when the exact result is out of range on this side' % tag)


def ovop_defs(oi, tag, pol, args):
    """signal-stub permissions for a job that enforces a trapping/throwing leaf (requires holds => signal allowed)"""
    if tag == 'trap':
        return {'VP_TRAP_%s_OK' % pol.upper(): '1'}
    if tag == 'throw':
        return {'VP_THROW_%s_OK' % pol.upper(): '1'}
    return {}


# ----------------------------------------------------------------------------- L0g: builtin path leaves

def builtin_pattern(oi):
    return (r'cnl::_impl::builtin_overflow_operator<cnl::_impl::%s, %s, %s>::operator\(\)<%s>\(' %
            (OPCLS[oi.op], dem(oi.types[0]), dem(oi.types[1]), re.escape(oi.res.name)))


def builtin_contract(oi):
    hi, lo, ex = oi.hi_lo(ptr_args(oi))
    return Contract(requires=[], ensures=['$RET == (%s || %s)' % (hi, lo),
                                         '(!$RET) ==> %s == %s' % (wval('*a3', oi.res, oi.w), ex)],
                    assigns=['*a3'],
                    note='intrinsic: reports overflow iff exact result not representable; stores the exact result otherwise')


def polarity_pattern(oi):
    return (r'cnl::_impl::overflow_polarity<cnl::_impl::%s>::operator\(\)<%s>\(' % (OPCLS[oi.op], oi.targs()))


def polarity_contract(oi):
    hi, lo, ex = oi.hi_lo(ptr_args(oi))
    return Contract(requires=[], ensures=['%s ==> $RET == 1U' % hi,
                                         '%s ==> $RET == 4294967295U' % lo], assigns=[],
                    note='what the caller\'s switch relies on: the guessed polarity is the side on which the exact result leaves the range, whenever it leaves it')


# ----------------------------------------------------------------------------- L1: custom_operator

def custop_pattern(oi, tag):
    if oi.op == 'convert':
        return (r'cnl::custom_operator<cnl::_impl::convert_op, cnl::op_value<%s, cnl::_impl::native_tag>, cnl::op_value<%s, %s> ?>::operator\(\)\(' %
                (dem(oi.types[0]), dem(oi.dest), re.escape(TAGS[tag])))
    ops = ', '.join('cnl::op_value<%s, %s>' % (dem(t), re.escape(TAGS[tag])) for t in oi.types)
    return r'cnl::custom_operator<cnl::_impl::%s, %s ?>::operator\(\)\(' % (OPCLS[oi.op], ops)


def top_contract(oi, tag, args=None):
    args = args or ptr_args(oi)
    hi, lo, ex = oi.hi_lo(args)
    w = oi.w
    rv = ret_val(oi.res, w)
    if tag == 'sat':
        ens = ['%s ==> %s == %s' % (hi, rv, wconst(oi.res.max, w)),
               '%s ==> %s == %s' % (lo, rv, wconst(oi.res.min, w)),
               '(!%s && !%s) ==> %s == %s' % (hi, lo, rv, ex)]
    else:
        ens = ['!%s && !%s' % (hi, lo), '%s == %s' % (rv, ex)]
    return Contract(requires=oi.requires(args), ensures=ens, assigns=[],
                    note='statement of C06 for tag %s' % tag)


def top_oracle(oi, tag):
    def o(*a):
        if not oi.py_domain(*a):
            return None
        e = oi.py_exact(*a)
        sig = 'trap' if tag == 'trap' else 'throw'
        if e > oi.res.max:
            return ('value', oi.res.max) if tag == 'sat' else (sig, 'positive overflow')
        if e < oi.res.min:
            return ('value', oi.res.min) if tag == 'sat' else (sig, 'negative overflow')
        return ('value', e)
    return o


def tagged_call(oi, tag):
    t = TAGS[tag]
    if oi.op == 'convert':
        return 'return cnl::convert<%s, %s>{}(a);' % (t, cxx(oi.dest))
    names = ', '.join('ab'[:oi.nargs()])
    return 'return cnl::_impl::operate<cnl::_impl::%s, %s>{}(%s);' % (OPCLS[oi.op], t, names)


# ----------------------------------------------------------------------------- plan

SAME = [('i8', 'i8'), ('u8', 'u8'), ('i16', 'i16'), ('u16', 'u16'), ('i32', 'i32'), ('u32', 'u32'), ('i64', 'i64'), ('u64', 'u64')]
MIXW = [('i8', 'i32'), ('i32', 'i8'), ('i16', 'i64'), ('i64', 'i32'), ('u8', 'u32'), ('u32', 'u64'), ('u16', 'i32'), ('i64', 'u32'), ('u8', 'i16')]
MIXS = [('i32', 'u32'), ('u32', 'i32'), ('i64', 'u64'), ('u64', 'i64'), ('i8', 'u32'), ('u32', 'i8'), ('i32', 'u64'), ('u64', 'i32')]
WIDE = [('i128', 'i128'), ('u128', 'u128'), ('i64', 'i128'), ('u128', 'u64')]
UNARY = ['i8', 'u8', 'i16', 'u16', 'i32', 'u32', 'i64', 'u64']
SHIFT = [('i8', 'i32'), ('u8', 'u8'), ('i16', 'i32'), ('i32', 'i32'), ('u32', 'i32'), ('i32', 'u8'), ('i64', 'i32'), ('u64', 'u64')]
CONV = [('i32', 'i8'), ('i32', 'u8'), ('u32', 'i8'), ('i16', 'u16'), ('u16', 'i16'), ('i64', 'i32'), ('u64', 'i32'),
        ('i32', 'u32'), ('u32', 'i32'), ('i8', 'u64'), ('i64', 'u64'), ('u64', 'i64'), ('i8', 'i32'), ('u8', 'i8'), ('i32', 'i32')]
# (source, destination)


QUICK = [('i8', 'i8'), ('u8', 'u8'), ('u16', 'u16'), ('i32', 'i32'), ('u32', 'u32'), ('i64', 'i64'), ('u64', 'u64'),
         ('i32', 'u32'), ('u64', 'i32'), ('i16', 'i64'), ('i64', 'i32'), ('i128', 'i128')]


def op_instances(thorough):
    out = []
    pairs = (SAME + MIXW + MIXS + WIDE) if thorough else QUICK
    for op in ('add', 'subtract'):
        for p in pairs:
            out.append(OpInst(op, p))
    for p in pairs:
        tot = T(p[0]).bits + T(p[1]).bits
        out.append(OpInst('multiply', p))
    for p in (SAME + MIXS[:4] + MIXW[:4]) if thorough else [('i8', 'i8'), ('i16', 'u16'), ('u16', 'u16'), ('i8', 'i16')]:
        out.append(OpInst('divide', p))
    for t in (UNARY + ['i128']) if thorough else ['i8', 'u8', 'i32', 'u32', 'i64']:
        out.append(OpInst('minus', [t]))
    for p in SHIFT if thorough else SHIFT[:5]:
        out.append(OpInst('shift_left', p))
    for s, d in CONV if thorough else CONV[:9]:
        out.append(OpInst('convert', [s], dest=d))
    return out


def hardness(oi, cfg):
    """(solvers, timeout, include_in_quick) for the obligations of this instantiation;
    None = beyond every SAT back end here (listed under not_applicable_parts)"""
    if oi.op in ('multiply', 'divide'):
        tot = oi.ts[0].bits + oi.ts[1].bits
        if tot <= 16:
            return ('minisat',), 120, True
        if tot <= 32:
            return ('cadical', 'kissat'), 900, False
        if tot <= 64 and not (oi.op == 'multiply' and cfg == 'clang' and tot > 64):
            return ('kissat', 'cadical'), 2400, False
        return None
    return ('minisat',), 90, True


def plan(tier):
    thorough = tier == 'thorough'
    src = {'clang': [KERNEL_HEAD], 'gcc': [KERNEL_HEAD]}
    jobs = []
    inst = []
    skipped = []
    for oi in op_instances(thorough):
        for cfg in ('clang', 'gcc'):
            h = hardness(oi, cfg)
            if h is None:
                skipped.append('%s %s (%s): multiplier/divider obligation beyond every SAT back end here' % (oi.op, oi.tag, cfg))
                continue
            solvers, timeout, quick = h
            if not thorough and not quick:
                continue
            builtin = cfg == 'gcc' and oi.op in ('add', 'subtract', 'multiply')
            if cfg == 'gcc' and not builtin and oi.op not in ('minus', 'convert'):
                # the GCC build selects the same portable code for these operators; proved once under 'clang'
                # (unary minus and convert are cheap and are re-proved under both to show path independence)
                continue
            kname = 'C06_' + cfg
            base = '%s.%s.%s' % (PROP, cfg, oi.op)
            nm = oi.tag
            first = 1
            # ---- L0 predicates
            if not builtin:
                for pol in ('pos', 'neg'):
                    sname = 'vp_isov_%s_%s_%s' % (oi.op, pol, nm)
                    src[cfg].append(shim('bool', sname, oi.params(), 'return %s;' % oi.callexpr(
                        'cnl::_impl::is_overflow<cnl::_impl::%s, %s>{}' % (OPCLS[oi.op], POL[pol]))))
                    jobs.append(Job('%s.L0.is_overflow.%s.%s' % (base, pol, nm), kname, isov_pattern(oi, pol), isov_contract(oi, pol),
                                    shim=sname, shim_types=oi.types, oracle=isov_oracle(oi, pol), prop=PROP,
                                    solvers=solvers, timeout=timeout, layer=0))
            else:
                sname = 'vp_builtin_%s_%s' % (oi.op, nm)
                src[cfg].append(shim('bool', sname, oi.params(),
                                     '%s r{}; return cnl::_impl::builtin_overflow_operator<cnl::_impl::%s, %s, %s>{}(a, b, r);'
                                     % (oi.res.cname, OPCLS[oi.op], cxx(oi.types[0]), cxx(oi.types[1]))))
                jobs.append(Job('%s.L0.builtin_overflow.%s' % (base, nm), kname, builtin_pattern(oi), builtin_contract(oi),
                                shim=sname, shim_types=oi.types, prop=PROP, solvers=solvers, timeout=timeout, layer=0,
                                oracle=(lambda oi: lambda a, b: ('value', 0 if oi.res.min <= oi.py_exact(a, b) <= oi.res.max else 1))(oi),
                                cex_filter=lambda leaves: leaves[:2]))
                sname = 'vp_polarity_%s_%s' % (oi.op, nm)
                src[cfg].append(shim('int', sname, oi.params(),
                                     'return static_cast<int>(cnl::_impl::overflow_polarity<cnl::_impl::%s>{}(a, b));' % OPCLS[oi.op]))

                def pol_oracle(oi):
                    def o(a, b):
                        e = oi.py_exact(a, b)
                        if e > oi.res.max:
                            return ('value', 1)
                        if e < oi.res.min:
                            return ('value', -1)
                        return None
                    return o
                jobs.append(Job('%s.L0.overflow_polarity.%s' % (base, nm), kname, polarity_pattern(oi), polarity_contract(oi),
                                shim=sname, shim_types=oi.types, prop=PROP, solvers=solvers, timeout=timeout, layer=0,
                                oracle=pol_oracle(oi)))
            # ---- L0 reactions + L1 operator, per tag
            for tag in ('sat', 'trap', 'throw'):
                sname = 'vp_%s_%s_%s' % (tag, oi.op, nm)
                src[cfg].append(shim(_ret_short(oi), sname, oi.params(), tagged_call(oi, tag)))
                repl = []
                for pol in ('pos', 'neg'):
                    if not oi.possible(pol):
                        continue      # this side cannot overflow for the instantiation: the leaf is unreachable (shown by L1)
                    c = ovop_contract(oi, tag, pol)
                    if thorough or cfg == 'clang':
                      jobs.append(Job('%s.L0.overflow_operator.%s.%s.%s' % (base, tag, pol, nm), kname, ovop_pattern(oi, tag, pol), c,
                                    prop=PROP, solvers=solvers, timeout=timeout, layer=0,
                                    defines=ovop_defs(oi, tag, pol, None), canary='ensures' if tag == 'sat' else 'signal'))
                    repl.append((ovop_pattern(oi, tag, pol), c))
                if not builtin:
                    for pol in ('pos', 'neg'):
                        repl.append((isov_pattern(oi, pol), isov_contract(oi, pol)))
                if builtin:
                    repl.append((builtin_pattern(oi), builtin_contract(oi)))
                    repl.append((polarity_pattern(oi), polarity_contract(oi)))
                jobs.append(Job('%s.L1.custom_operator.%s.%s' % (base, tag, nm), kname, custop_pattern(oi, tag), top_contract(oi, tag),
                                replace=repl, shim=sname, shim_types=oi.types, oracle=top_oracle(oi, tag), prop=PROP,
                                solvers=solvers, timeout=timeout, layer=1))
            inst.append((cfg, oi.op, nm))
    kernels = [Kernel('C06_clang', ''.join(src['clang']), [], 'portable (Clang) detection path'),
               Kernel('C06_gcc', ''.join(src['gcc']), ['-U__clang__'], 'intrinsic (GCC) detection path: clang front end with __clang__ undefined')]
    meta = {
        'instantiations': len(inst),
        'explanation': 'per-function contracts taken from the property statement, discharged by CBMC on C extracted from clang -O0 IR; '
                       'callers proved against callee contracts (goto-instrument --dfcc --replace-call-with-contract)',
        'not_applicable_parts': skipped + ['floating-point sources of convert: see C06 float jobs / DESIGN.md'],
        'assumptions': ['-U__clang__ under clang selects the same preprocessor branches a GCC build selects'],
    }
    return {'kernels': kernels, 'jobs': jobs, 'meta': meta}


def _ret_short(oi):
    for k, v in CT.ALIAS.items():
        if v == oi.res.name and k[0] in 'iu':
            return k
    raise KeyError(oi.res.name)

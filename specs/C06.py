"""C06 -- overflow is detected exactly and handled as the tag specifies.

Layers (leaf first):
  L0  cnl::_impl::is_overflow<Op, polarity>::operator()<L,R>           (portable predicates)
  L0  cnl::_impl::overflow_operator<Op, Tag, polarity>::operator()     (per-tag reaction)
  L0g cnl::_impl::builtin_overflow_operator<Op,L,R>::operator()        (GCC paths)
  L0g cnl::_impl::overflow_polarity<Op>::operator()                    (GCC paths)
  L1  cnl::custom_operator<Op, op_value<L,Tag>, op_value<R,Tag>>::operator()   callers of L0, L0 replaced by contract
  L2  public operators on cnl::overflow_integer<Rep, Tag>              callers of L1, L1 replaced by contract
Every postcondition is the property statement: overflow handling iff the exact result is outside
the range of the result type; saturated -> nearest bound, trapping/throwing -> signal, else exact result.
"""
import re

from vplib import cxxtypes as CT
from vplib.speclib import (KERNEL_HEAD, POL, POLNUM, OPSYM, T, cxx, dem, W, wval, wconst, in_range, ret_val,
                           Contract, Job, Kernel, shim, trunc_div)

PROP = 'C06'
TAGS = {'sat': 'saturated_overflow_tag', 'trap': 'trapping_overflow_tag', 'throw': 'throwing_overflow_tag'}
OPCLS = {'add': 'add_op', 'subtract': 'subtract_op', 'multiply': 'multiply_op', 'divide': 'divide_op',
         'shift_left': 'shift_left_op', 'minus': 'minus_op'}


def res_type(op, l, r):
    L, Rt = T(l), T(r)
    if op in ('shift_left', 'shift_right'):
        return CT.promote(L)
    return CT.common(L, Rt)


def exact_expr(op, l, r, a='*a1', b='*a2'):
    """(exact expression, width) for binary op on C++ types l, r"""
    L, Rt = T(l), T(r)
    Res = res_type(op, l, r)
    if op in ('add', 'subtract'):
        w = max(L.bits, Rt.bits, Res.bits) + 3
        return '(%s %s %s)' % (wval(a, L, w), OPSYM[op], wval(b, Rt, w)), w
    if op == 'multiply':
        w = max(L.bits + Rt.bits, Res.bits) + 3
        return '(%s * %s)' % (wval(a, L, w), wval(b, Rt, w)), w
    raise KeyError(op)


def py_exact(op, a, b):
    if op == 'add':
        return a + b
    if op == 'subtract':
        return a - b
    if op == 'multiply':
        return a * b
    if op == 'divide':
        return trunc_div(a, b)
    if op == 'shift_left':
        return a << b
    raise KeyError(op)


# ----------------------------------------------------------------------------- L0: is_overflow

def isov_contract(op, pol, l, r):
    Res = res_type(op, l, r)
    ex, w = exact_expr(op, l, r)
    bound = ('%s > %s' % (ex, wconst(Res.max, w))) if pol == 'pos' else ('%s < %s' % (ex, wconst(Res.min, w)))
    return Contract(requires=[], ensures=['__CPROVER_return_value == (%s)' % bound], assigns=[],
                    note='is_overflow<%s,%s><%s,%s> == (exact %s %s)' % (op, pol, l, r, '>' if pol == 'pos' else '<', 'max' if pol == 'pos' else 'lowest'))


def isov_pattern(op, pol, l, r):
    return (r'cnl::_impl::is_overflow<cnl::_impl::%s, \(cnl::_impl::polarity\)%s>::operator\(\)<%s, %s>\(' %
            (OPCLS[op], POLNUM[pol], dem(l), dem(r)))


def isov_oracle(op, pol, l, r):
    Res = res_type(op, l, r)

    def o(a, b):
        e = py_exact(op, a, b)
        return ('value', 1 if (e > Res.max if pol == 'pos' else e < Res.min) else 0)
    return o


# ----------------------------------------------------------------------------- L0: overflow_operator

def ovop_pattern(op, tag, pol, l, r):
    return (r'cnl::_impl::overflow_operator<cnl::_impl::%s, cnl::%s, \(cnl::_impl::polarity\)%s>::operator\(\)<%s, %s>\(' %
            (OPCLS[op], TAGS[tag], POLNUM[pol], dem(l), dem(r)))


def ovop_contract(op, tag, pol, l, r):
    Res = res_type(op, l, r)
    ex, w = exact_expr(op, l, r)
    cond = ('%s > %s' % (ex, wconst(Res.max, w))) if pol == 'pos' else ('%s < %s' % (ex, wconst(Res.min, w)))
    if tag == 'sat':
        # always returns the bound on its side; the caller may only call it on that side (requires)
        bound = Res.max if pol == 'pos' else Res.min
        return Contract(requires=[cond], ensures=['%s == %s' % (ret_val(Res, w), wconst(bound, w))], assigns=[])
    # trapping / throwing: never returns; may only be called when the exact result is out of range on this side
    return Contract(requires=[cond], ensures=['0'], assigns=[], noreturn=True)


# ----------------------------------------------------------------------------- L1: custom_operator

def custop_pattern(op, tag, l, r):
    return (r'cnl::custom_operator<cnl::_impl::%s, cnl::op_value<%s, cnl::%s>, cnl::op_value<%s, cnl::%s> ?>::operator\(\)\(' %
            (OPCLS[op], dem(l), TAGS[tag], dem(r), TAGS[tag]))


def top_contract(op, tag, l, r):
    Res = res_type(op, l, r)
    ex, w = exact_expr(op, l, r)
    hi = '(%s > %s)' % (ex, wconst(Res.max, w))
    lo = '(%s < %s)' % (ex, wconst(Res.min, w))
    rv = ret_val(Res, w)
    if tag == 'sat':
        ens = ['%s ==> %s == %s' % (hi, rv, wconst(Res.max, w)),
               '%s ==> %s == %s' % (lo, rv, wconst(Res.min, w)),
               '(!%s && !%s) ==> %s == %s' % (hi, lo, rv, ex)]
    else:
        ens = ['!%s && !%s' % (hi, lo), '%s == %s' % (rv, ex)]
    return Contract(requires=[], ensures=ens, assigns=[])


def top_oracle(op, tag, l, r):
    Res = res_type(op, l, r)

    def o(a, b):
        e = py_exact(op, a, b)
        if e > Res.max:
            return ('value', Res.max) if tag == 'sat' else (('trap' if tag == 'trap' else 'throw'), 'positive overflow')
        if e < Res.min:
            return ('value', Res.min) if tag == 'sat' else (('trap' if tag == 'trap' else 'throw'), 'negative overflow')
        return ('value', e)
    return o


def signal_defs(op, tag, l, r):
    """macros for the signal stubs when leaves are inlined (over the harness inputs vp_in1, vp_in2)"""
    Res = res_type(op, l, r)
    ex, w = exact_expr(op, l, r, 'vp_in1', 'vp_in2')
    hi = '(%s > %s)' % (ex, wconst(Res.max, w))
    lo = '(%s < %s)' % (ex, wconst(Res.min, w))
    if tag == 'trap':
        return {'VP_TRAP_POS_OK': hi, 'VP_TRAP_NEG_OK': lo}
    if tag == 'throw':
        return {'VP_THROW_POS_OK': hi, 'VP_THROW_NEG_OK': lo}
    return {}


# ----------------------------------------------------------------------------- plan

SAME = [('i8', 'i8'), ('u8', 'u8'), ('i16', 'i16'), ('u16', 'u16'), ('i32', 'i32'), ('u32', 'u32'), ('i64', 'i64'), ('u64', 'u64')]
MIXW = [('i8', 'i32'), ('i32', 'i8'), ('i16', 'i64'), ('i64', 'i32'), ('u8', 'u32'), ('u32', 'u64'), ('u16', 'i32'), ('i64', 'u32'), ('u8', 'i16')]
MIXS = [('i32', 'u32'), ('u32', 'i32'), ('i64', 'u64'), ('u64', 'i64'), ('i8', 'u32'), ('u32', 'i8'), ('i32', 'u64'), ('u64', 'i32')]
WIDE = [('i128', 'i128'), ('u128', 'u128'), ('i64', 'i128'), ('u128', 'u64')]


def plan(tier):
    thorough = tier == 'thorough'
    pairs_lin = SAME + MIXW + MIXS + (WIDE if thorough else [('i128', 'i128')])
    src = {'clang': [KERNEL_HEAD], 'gcc': [KERNEL_HEAD]}
    jobs = []
    inst = []

    def add_shim(cfg, text):
        src[cfg].append(text)

    for cfg in ('clang',):
        kname = 'C06_' + cfg
        for op in ('add', 'subtract', 'multiply'):
            for (l, r) in pairs_lin:
                L, Rt = T(l), T(r)
                if op == 'multiply':
                    # divider vs multiplier: only narrow operands are decidable by SAT in the tier budgets
                    tot = L.bits + Rt.bits
                    if tot > (32 if not thorough else 64):
                        continue
                for pol in ('pos', 'neg'):
                    sname = 'vp_isov_%s_%s_%s_%s' % (op, pol, l, r)
                    add_shim(cfg, shim('bool', sname, [(l, 'a'), (r, 'b')],
                                       'return cnl::_impl::is_overflow<cnl::_impl::%s, %s>{}(a, b);' % (OPCLS[op], POL[pol])))
                    hard = op == 'multiply' and L.bits + Rt.bits > 32
                    jobs.append(Job('%s.%s.L0.is_overflow.%s.%s.%s.%s' % (PROP, cfg, op, pol, l, r), kname,
                                    isov_pattern(op, pol, l, r), isov_contract(op, pol, l, r),
                                    shim=sname, shim_types=[l, r], oracle=isov_oracle(op, pol, l, r), prop=PROP,
                                    solvers=('cadical', 'kissat') if hard else ('minisat',),
                                    timeout=900 if hard else 60, layer=0))
                    inst.append((cfg, 'is_overflow', op, pol, l, r))
    kernels = [Kernel('C06_clang', ''.join(src['clang']), [], 'portable (Clang) detection path')]
    meta = {
        'instantiations': len(inst),
        'explanation': 'per-function contracts taken from the property statement, discharged by CBMC on C extracted from clang -O0 IR',
        'not_applicable_parts': [],
        'assumptions': [],
    }
    return {'kernels': kernels, 'jobs': jobs, 'meta': meta}

"""C06 -- overflow is detected exactly and handled as the tag specifies.

Layers (leaf first):
  L0  cnl::_impl::is_overflow<Op, polarity>::operator()<...>            portable predicates (Clang paths)
  L0  cnl::_impl::overflow_operator<Op, Tag, polarity>::operator()      per-tag reaction
  L0g cnl::_impl::builtin_overflow_operator<Op,L,R>::operator()         intrinsic (GCC paths, -U__clang__)
  L0g cnl::_impl::overflow_polarity<Op>::operator()                     polarity guess (GCC paths)
  L1  cnl::custom_operator<Op, op_value<L,Tag>, op_value<R,Tag>>::operator()   L0 replaced by contract
  L2  public operators on cnl::overflow_integer<Rep, Tag>               L1 replaced by contract
Every postcondition is the property statement: overflow handling iff the exact result is outside
the range of the result type; saturated -> nearest bound, trapping/throwing -> signal, else exact result.
"""
import re

from vplib import cxxtypes as CT
from vplib.speclib import (KERNEL_HEAD, POL, POLNUM, T, cxx, dem, W, wval, wconst, ret_val,
                           Contract, Job, Kernel, shim, trunc_div)

PROP = 'C06'
TAGS = {'sat': 'cnl::saturated_overflow_tag', 'trap': 'cnl::trapping_overflow_tag', 'throw': 'cnl::_impl::throwing_overflow_tag'}
OPCLS = {'add': 'add_op', 'subtract': 'subtract_op', 'multiply': 'multiply_op', 'divide': 'divide_op',
         'shift_left': 'shift_left_op', 'minus': 'minus_op', 'convert': 'convert_op'}
SYM = {'add': '+', 'subtract': '-', 'multiply': '*'}


class OpInst:
    """one instantiation of a checked operation on built-in operands"""

    def __init__(self, op, types, dest=None):
        self.op = op
        self.types = list(types)             # operand short type names
        self.dest = dest                     # convert only
        ts = [T(x) for x in types]
        if op in ('add', 'subtract', 'multiply', 'divide'):
            self.res = CT.common(ts[0], ts[1])
        elif op == 'shift_left':
            self.res = CT.promote(ts[0])
        elif op == 'minus':
            self.res = CT.promote(ts[0])
        elif op == 'convert':
            self.res = T(dest)
        self.ts = ts
        self.tag = '_'.join(([dest] if dest else []) + self.types)
        # spec vector width: wide enough for the exact result and both bounds
        b = [t.bits for t in ts] + [self.res.bits]
        if op == 'multiply':
            self.w = max(ts[0].bits + ts[1].bits, self.res.bits) + 3
        elif op == 'shift_left':
            self.w = ts[0].bits + self.res.bits + 3
        else:
            self.w = max(b) + 3

    # template-argument spelling of operator()<...>
    def targs(self):
        if self.op == 'convert':
            return '%s, %s' % (dem(self.dest), dem(self.types[0]))
        return ', '.join(dem(t) for t in self.types)

    def requires(self, args):
        """domain restrictions taken from the statement (zero divisor, negative shift count)"""
        if self.op == 'divide':
            return ['%s != 0' % args[1]]
        if self.op == 'shift_left' and self.ts[1].signed:
            return ['(%s)%s >= 0' % (self.ts[1].sctype, args[1])]
        return []

    def hi_lo(self, args):
        """C expressions (hi, lo, exact) over unsigned-storage argument expressions"""
        w = self.w
        v = [wval(a, t, w) for a, t in zip(args, self.ts)]
        mx, mn = wconst(self.res.max, w), wconst(self.res.min, w)
        if self.op in SYM:
            ex = '(%s %s %s)' % (v[0], SYM[self.op], v[1])
        elif self.op == 'divide':
            ex = '(%s / %s)' % (v[0], v[1])
        elif self.op == 'minus':
            ex = '(-%s)' % v[0]
        elif self.op == 'convert':
            ex = v[0]
        elif self.op == 'shift_left':
            D = self.res.bits
            cnt = args[1]
            big = '(%s >= %d)' % (cnt, D)
            sh = '(%s << (%s %% %d))' % (v[0], cnt, D)        # only used under !big
            hi = '(%s > 0 && (%s || %s > %s))' % (v[0], big, sh, mx)
            lo = '(%s < 0 && (%s || %s < %s))' % (v[0], big, sh, mn)
            # when neither holds: 0 << anything == 0, else count < D and the shifted value is exact
            ex = '(%s == 0 ? %s : %s)' % (v[0], wconst(0, w), sh)
            return hi, lo, ex
        else:
            raise KeyError(self.op)
        return '(%s > %s)' % (ex, mx), '(%s < %s)' % (ex, mn), ex

    def py_exact(self, *a):
        op = self.op
        if op == 'add':
            return a[0] + a[1]
        if op == 'subtract':
            return a[0] - a[1]
        if op == 'multiply':
            return a[0] * a[1]
        if op == 'divide':
            return trunc_div(a[0], a[1])
        if op == 'minus':
            return -a[0]
        if op == 'convert':
            return a[0]
        if op == 'shift_left':
            return a[0] << a[1]
        raise KeyError(op)

    def py_domain(self, *a):
        if self.op == 'divide':
            return a[1] != 0
        if self.op == 'shift_left':
            return 0 <= a[1] < 4096
        return True

    def nargs(self):
        return len(self.types)

    def possible(self, pol):
        """can the exact result leave the result range on this side at all (interval corners)?"""
        import itertools
        cs = []
        for t in self.ts:
            c = {t.min, t.max}
            for k in (-1, 0, 1, 2):
                if t.min <= k <= t.max:
                    c.add(k)
            cs.append(sorted(c))
        if self.op == 'shift_left':
            cs[1] = [x for x in cs[1] if x >= 0] + [self.res.bits - 1, self.res.bits]
        for a in itertools.product(*cs):
            if not self.py_domain(*a):
                continue
            e = self.py_exact(*a)
            if (pol == 'pos' and e > self.res.max) or (pol == 'neg' and e < self.res.min):
                return True
        return False

    def callexpr(self, functor):
        names = 'ab'[:self.nargs()]
        if self.op == 'convert':
            return '%s.template operator()<%s>(a)' % (functor, cxx(self.dest))
        return '%s(%s)' % (functor, ', '.join(names))

    def params(self):
        return list(zip(self.types, 'ab'))


def ptr_args(oi, first=1):
    return ['(*a%d)' % (first + i) for i in range(oi.nargs())]


def in_args(oi, first=1):
    return ['vp_in%d' % (first + i) for i in range(oi.nargs())]


# ----------------------------------------------------------------------------- L0: is_overflow

def isov_pattern(oi, pol):
    return (r'cnl::_impl::is_overflow<cnl::_impl::%s, \(cnl::_impl::polarity\)%s>::operator\(\)<%s>\(' %
            (OPCLS[oi.op], POLNUM[pol], oi.targs()))


def isov_contract(oi, pol):
    hi, lo, ex = oi.hi_lo(ptr_args(oi))
    return Contract(requires=oi.requires(ptr_args(oi)),
                    ensures=['$RET == %s' % (hi if pol == 'pos' else lo)], assigns=[],
                    note='returns true iff the exact result is %s the range of %s' % ('above' if pol == 'pos' else 'below', oi.res.name))


def isov_oracle(oi, pol):
    def o(*a):
        if not oi.py_domain(*a):
            return None
        e = oi.py_exact(*a)
        return ('value', 1 if (e > oi.res.max if pol == 'pos' else e < oi.res.min) else 0)
    return o


# ----------------------------------------------------------------------------- L0: overflow_operator

def ovop_pattern(oi, tag, pol):
    return (r'cnl::_impl::overflow_operator<cnl::_impl::%s, %s, \(cnl::_impl::polarity\)%s>::operator\(\)<%s>\(' %
            (OPCLS[oi.op], re.escape(TAGS[tag]), POLNUM[pol], oi.targs()))


def ovop_contract(oi, tag, pol):
    hi, lo, ex = oi.hi_lo(ptr_args(oi))
    cond = hi if pol == 'pos' else lo
    if tag == 'sat':
        bound = oi.res.max if pol == 'pos' else oi.res.min
        return Contract(requires=oi.requires(ptr_args(oi)) + [cond],
                        ensures=['%s == %s' % (ret_val(oi.res, oi.w), wconst(bound, oi.w))], assigns=[],
                        note='saturated: yields the bound on its side; callable only on that side')
    return Contract(requires=oi.requires(ptr_args(oi)) + [cond], ensures=['0'], assigns=[], noreturn=True,
                    note='%s: never returns (signals); callable only when the exact result is out of range on this side' % tag)


def ovop_defs(oi, tag, pol, args):
    """signal-stub permissions for a job that enforces a trapping/throwing leaf (requires holds => signal allowed)"""
    if tag == 'trap':
        return {'VP_TRAP_%s_OK' % pol.upper(): '1'}
    if tag == 'throw':
        return {'VP_THROW_%s_OK' % pol.upper(): '1'}
    return {}


# ----------------------------------------------------------------------------- L0g: builtin path leaves

def builtin_pattern(oi):
    return (r'cnl::_impl::builtin_overflow_operator<cnl::_impl::%s, %s, %s>::operator\(\)<%s>\(' %
            (OPCLS[oi.op], dem(oi.types[0]), dem(oi.types[1]), re.escape(oi.res.name)))


def builtin_contract(oi):
    hi, lo, ex = oi.hi_lo(ptr_args(oi))
    return Contract(requires=[], ensures=['$RET == (%s || %s)' % (hi, lo),
                                         '(!$RET) ==> %s == %s' % (wval('*a3', oi.res, oi.w), ex)],
                    assigns=['*a3'],
                    note='intrinsic: reports overflow iff exact result not representable; stores the exact result otherwise')


def polarity_pattern(oi):
    return (r'cnl::_impl::overflow_polarity<cnl::_impl::%s>::operator\(\)<%s>\(' % (OPCLS[oi.op], oi.targs()))


def polarity_contract(oi):
    hi, lo, ex = oi.hi_lo(ptr_args(oi))
    return Contract(requires=[], ensures=['%s ==> $RET == 1U' % hi,
                                         '%s ==> $RET == 4294967295U' % lo], assigns=[],
                    note='what the caller\'s switch relies on: the guessed polarity is the side on which the exact result leaves the range, whenever it leaves it')


# ----------------------------------------------------------------------------- L1: custom_operator

def custop_pattern(oi, tag):
    if oi.op == 'convert':
        return (r'cnl::custom_operator<cnl::_impl::convert_op, cnl::op_value<%s, cnl::_impl::native_tag>, cnl::op_value<%s, %s> ?>::operator\(\)\(' %
                (dem(oi.types[0]), dem(oi.dest), re.escape(TAGS[tag])))
    ops = ', '.join('cnl::op_value<%s, %s>' % (dem(t), re.escape(TAGS[tag])) for t in oi.types)
    return r'cnl::custom_operator<cnl::_impl::%s, %s ?>::operator\(\)\(' % (OPCLS[oi.op], ops)


def top_contract(oi, tag, args=None):
    args = args or ptr_args(oi)
    hi, lo, ex = oi.hi_lo(args)
    w = oi.w
    rv = ret_val(oi.res, w)
    if tag == 'sat':
        ens = ['%s ==> %s == %s' % (hi, rv, wconst(oi.res.max, w)),
               '%s ==> %s == %s' % (lo, rv, wconst(oi.res.min, w)),
               '(!%s && !%s) ==> %s == %s' % (hi, lo, rv, ex)]
    else:
        ens = ['!%s && !%s' % (hi, lo), '%s == %s' % (rv, ex)]
    return Contract(requires=oi.requires(args), ensures=ens, assigns=[],
                    note='statement of C06 for tag %s' % tag)


def top_oracle(oi, tag):
    def o(*a):
        if not oi.py_domain(*a):
            return None
        e = oi.py_exact(*a)
        sig = 'trap' if tag == 'trap' else 'throw'
        if e > oi.res.max:
            return ('value', oi.res.max) if tag == 'sat' else (sig, 'positive overflow')
        if e < oi.res.min:
            return ('value', oi.res.min) if tag == 'sat' else (sig, 'negative overflow')
        return ('value', e)
    return o


def tagged_call(oi, tag):
    t = TAGS[tag]
    if oi.op == 'convert':
        return 'return cnl::convert<%s, %s>{}(a);' % (t, cxx(oi.dest))
    names = ', '.join('ab'[:oi.nargs()])
    return 'return cnl::_impl::operate<cnl::_impl::%s, %s>{}(%s);' % (OPCLS[oi.op], t, names)


# ----------------------------------------------------------------------------- plan

SAME = [('i8', 'i8'), ('u8', 'u8'), ('i16', 'i16'), ('u16', 'u16'), ('i32', 'i32'), ('u32', 'u32'), ('i64', 'i64'), ('u64', 'u64')]
MIXW = [('i8', 'i32'), ('i32', 'i8'), ('i16', 'i64'), ('i64', 'i32'), ('u8', 'u32'), ('u32', 'u64'), ('u16', 'i32'), ('i64', 'u32'), ('u8', 'i16')]
MIXS = [('i32', 'u32'), ('u32', 'i32'), ('i64', 'u64'), ('u64', 'i64'), ('i8', 'u32'), ('u32', 'i8'), ('i32', 'u64'), ('u64', 'i32')]
WIDE = [('i128', 'i128'), ('u128', 'u128'), ('i64', 'i128'), ('u128', 'u64')]
UNARY = ['i8', 'u8', 'i16', 'u16', 'i32', 'u32', 'i64', 'u64']
SHIFT = [('i8', 'i32'), ('u8', 'u8'), ('i16', 'i32'), ('i32', 'i32'), ('u32', 'i32'), ('i32', 'u8'), ('i64', 'i32'), ('u64', 'u64')]
CONV = [('i32', 'i8'), ('i32', 'u8'), ('u32', 'i8'), ('i16', 'u16'), ('u16', 'i16'), ('i64', 'i32'), ('u64', 'i32'),
        ('i32', 'u32'), ('u32', 'i32'), ('i8', 'u64'), ('i64', 'u64'), ('u64', 'i64'), ('i8', 'i32'), ('u8', 'i8'), ('i32', 'i32')]
# (source, destination)


QUICK = [('i8', 'i8'), ('u8', 'u8'), ('u16', 'u16'), ('i32', 'i32'), ('u32', 'u32'), ('i64', 'i64'), ('u64', 'u64'),
         ('i32', 'u32'), ('u64', 'i32'), ('i16', 'i64'), ('i64', 'i32'), ('i128', 'i128')]


def op_instances(thorough):
    out = []
    pairs = (SAME + MIXW + MIXS + WIDE) if thorough else QUICK
    for op in ('add', 'subtract'):
        for p in pairs:
            out.append(OpInst(op, p))
    for p in pairs:
        tot = T(p[0]).bits + T(p[1]).bits
        out.append(OpInst('multiply', p))
    for p in (SAME + MIXS[:4] + MIXW[:4]) if thorough else [('i8', 'i8'), ('i16', 'u16'), ('u16', 'u16'), ('i8', 'i16')]:
        out.append(OpInst('divide', p))
    for t in (UNARY + ['i128']) if thorough else ['i8', 'u8', 'i32', 'u32', 'i64']:
        out.append(OpInst('minus', [t]))
    for p in SHIFT if thorough else SHIFT[:5]:
        out.append(OpInst('shift_left', p))
    for s, d in CONV if thorough else CONV[:9]:
        out.append(OpInst('convert', [s], dest=d))
    return out


def hardness(oi, cfg, layer='L0'):
    """(solvers, timeout, include_in_quick) for the obligations of this instantiation at this layer;
    None = beyond the SAT back ends within the tier budgets (listed under not_applicable_parts).  Measured on this machine:
    portable multiply predicate vs the exact product: 16x16 bits minutes (cadical/kissat), int x int 1000-1700 s (kissat), 64-bit no answer;
    the caller (L1) and the intrinsic-path multiply need 'no overflow => mul nsw defined' on top: no answer at 16x16 bits in 900 s."""
    tot = sum(t.bits for t in oi.ts)
    if oi.op == 'multiply':
        if tot <= 16:
            return ('minisat',), 120, True
        if layer != 'L0' or cfg == 'gcc':
            return None
        if tot <= 32:
            return ('cadical', 'kissat'), 1500, False
        if oi.types in (['i32', 'i32'], ['u32', 'u32']):
            return ('kissat', 'cadical'), 3300, False
        return None
    if oi.op == 'divide':
        if layer == 'L0':
            return ('minisat',), 120, tot <= 32        # the predicate itself contains no divider
        if tot <= 16:
            return ('minisat',), 120, True
        return None
    return ('minisat',), 90, True


def plan(tier):
    thorough = tier == 'thorough'
    src = {'clang': [KERNEL_HEAD], 'gcc': [KERNEL_HEAD]}
    jobs = []
    inst = []
    skipped = []
    for oi in op_instances(thorough):
        for cfg in ('clang', 'gcc'):
            h = hardness(oi, cfg, 'L0')
            if h is None:
                skipped.append('%s %s (%s): multiplier/divider obligation beyond the SAT back ends within the tier budget' % (oi.op, oi.tag, cfg))
                continue
            solvers, timeout, quick = h
            if not thorough and not quick:
                continue
            h1 = hardness(oi, cfg, 'L1')
            if h1 is not None and not thorough and not h1[2]:
                h1 = None
            builtin = cfg == 'gcc' and oi.op in ('add', 'subtract', 'multiply')
            if cfg == 'gcc' and not builtin and oi.op not in ('minus', 'convert'):
                # the GCC build selects the same portable code for these operators; proved once under 'clang'
                # (unary minus and convert are cheap and are re-proved under both to show path independence)
                continue
            kname = 'C06_' + cfg
            base = '%s.%s.%s' % (PROP, cfg, oi.op)
            nm = oi.tag
            first = 1
            # ---- L0 predicates
            if not builtin:
                for pol in ('pos', 'neg'):
                    sname = 'vp_isov_%s_%s_%s' % (oi.op, pol, nm)
                    src[cfg].append(shim('bool', sname, oi.params(), 'return %s;' % oi.callexpr(
                        'cnl::_impl::is_overflow<cnl::_impl::%s, %s>{}' % (OPCLS[oi.op], POL[pol]))))
                    jobs.append(Job('%s.L0.is_overflow.%s.%s' % (base, pol, nm), kname, isov_pattern(oi, pol), isov_contract(oi, pol),
                                    shim=sname, shim_types=oi.types, oracle=isov_oracle(oi, pol), prop=PROP,
                                    solvers=solvers, timeout=timeout, layer=0))
            else:
                sname = 'vp_builtin_%s_%s' % (oi.op, nm)
                src[cfg].append(shim('bool', sname, oi.params(),
                                     '%s r{}; return cnl::_impl::builtin_overflow_operator<cnl::_impl::%s, %s, %s>{}(a, b, r);'
                                     % (oi.res.cname, OPCLS[oi.op], cxx(oi.types[0]), cxx(oi.types[1]))))
                jobs.append(Job('%s.L0.builtin_overflow.%s' % (base, nm), kname, builtin_pattern(oi), builtin_contract(oi),
                                shim=sname, shim_types=oi.types, prop=PROP, solvers=solvers, timeout=timeout, layer=0,
                                oracle=(lambda oi: lambda a, b: ('value', 0 if oi.res.min <= oi.py_exact(a, b) <= oi.res.max else 1))(oi),
                                cex_filter=lambda leaves: leaves[:2]))
                sname = 'vp_polarity_%s_%s' % (oi.op, nm)
                src[cfg].append(shim('int', sname, oi.params(),
                                     'return static_cast<int>(cnl::_impl::overflow_polarity<cnl::_impl::%s>{}(a, b));' % OPCLS[oi.op]))

                def pol_oracle(oi):
                    def o(a, b):
                        e = oi.py_exact(a, b)
                        if e > oi.res.max:
                            return ('value', 1)
                        if e < oi.res.min:
                            return ('value', -1)
                        return None
                    return o
                jobs.append(Job('%s.L0.overflow_polarity.%s' % (base, nm), kname, polarity_pattern(oi), polarity_contract(oi),
                                shim=sname, shim_types=oi.types, prop=PROP, solvers=solvers, timeout=timeout, layer=0,
                                oracle=pol_oracle(oi)))
            # ---- L0 reactions + L1 operator, per tag
            for tag in ('sat', 'trap', 'throw'):
                sname = 'vp_%s_%s_%s' % (tag, oi.op, nm)
                src[cfg].append(shim(_ret_short(oi), sname, oi.params(), tagged_call(oi, tag)))
                repl = []
                for pol in ('pos', 'neg'):
                    if not oi.possible(pol):
                        continue      # this side cannot overflow for the instantiation: the leaf is unreachable (shown by L1)
                    c = ovop_contract(oi, tag, pol)
                    if thorough or cfg == 'clang':
                      jobs.append(Job('%s.L0.overflow_operator.%s.%s.%s' % (base, tag, pol, nm), kname, ovop_pattern(oi, tag, pol), c,
                                    prop=PROP, solvers=solvers, timeout=timeout, layer=0,
                                    defines=ovop_defs(oi, tag, pol, None), canary='ensures' if tag == 'sat' else 'signal'))
                    repl.append((ovop_pattern(oi, tag, pol), c))
                if not builtin:
                    for pol in ('pos', 'neg'):
                        repl.append((isov_pattern(oi, pol), isov_contract(oi, pol)))
                if builtin:
                    repl.append((builtin_pattern(oi), builtin_contract(oi)))
                    repl.append((polarity_pattern(oi), polarity_contract(oi)))
                if h1 is not None:
                    jobs.append(Job('%s.L1.custom_operator.%s.%s' % (base, tag, nm), kname, custop_pattern(oi, tag), top_contract(oi, tag),
                                    replace=repl, shim=sname, shim_types=oi.types, oracle=top_oracle(oi, tag), prop=PROP,
                                    solvers=h1[0], timeout=h1[1], layer=1))
                elif tag == 'sat':
                    skipped.append('%s %s (%s) caller layer L1: not claimed (needs multiplier/divider reasoning beyond budget)' % (oi.op, oi.tag, cfg))
            inst.append((cfg, oi.op, nm))
    # ---- conversion from floating point (float / double sources): whole tagged operator, callees inlined
    #      exact result = trunc(x); overflow iff trunc(x) is outside the destination range.  In the open bands (max, max+1) and
    #      (min-1, min) the truncated value still fits but x itself is outside [min, max]: both readings of the statement are accepted there.
    for (f, d) in ([('f32', 'i32'), ('f32', 'i8'), ('f64', 'i32'), ('f64', 'i64'), ('f32', 'u32'), ('f64', 'u16')] if thorough else [('f32', 'i32'), ('f64', 'i16'), ('f32', 'u8')]):
        D = T(d)
        F = 'float' if f == 'f32' else 'double'
        mant = 24 if f == 'f32' else 53
        suf = 'f' if f == 'f32' else ''
        hi_c = float(2 ** D.digits if not D.signed else 2 ** (D.bits - 1)).hex() + suf          # max + 1, exactly representable
        mx_c = float(D.max).hex() + suf if D.max < 2 ** mant else None
        if D.signed:
            lo_excl = (float(D.min - 1).hex() + suf) if (D.bits - 1) < mant else None         # min - 1 when representable
            lo_c = float(D.min).hex() + suf
        else:
            lo_excl, lo_c = '-0x1p+0' + suf, '0x0p+0' + suf
        for tag in ('sat', 'trap', 'throw'):
            for cfg in ('clang',):
                x = '(*a1)'
                xin = 'vp_in1'
                hi = lambda e: '(%s >= %s)' % (e, hi_c)
                lo = lambda e: ('(%s <= %s)' % (e, lo_excl)) if lo_excl else ('(%s < %s)' % (e, lo_c))
                above = lambda e: ('(%s > %s)' % (e, mx_c)) if mx_c else hi(e)
                below = lambda e: '(%s < %s)' % (e, lo_c)
                tr = '((%s)(%s)%s)' % (D.ctype, D.sctype, x)
                req = ['%s == %s' % (x, x), '%s < %s && %s > -%s' % (x, '__builtin_inf%s()' % suf, x, '__builtin_inf%s()' % suf)]
                req = ['%s == %s' % (x, x), '%s <= %s && %s >= -%s' % (x, '0x1.fffffep+127f' if f == 'f32' else '0x1.fffffffffffffp+1023', x, '0x1.fffffep+127f' if f == 'f32' else '0x1.fffffffffffffp+1023')]
                if tag == 'sat':
                    ens = ['%s ==> (%s)$RET == %s' % (hi(x), D.ctype, C_int(D.max, D)), '%s ==> (%s)$RET == %s' % (lo(x), D.ctype, C_int(D.min, D)),
                           '(!%s && !%s) ==> ((%s)$RET == %s || (%s && (%s)$RET == %s) || (%s && (%s)$RET == %s))'
                           % (hi(x), lo(x), D.ctype, tr, above(x), D.ctype, C_int(D.max, D), below(x), D.ctype, C_int(D.min, D))]
                    defs = {}
                else:
                    ens = ['!%s && !%s' % (hi(x), lo(x)), '(%s)$RET == %s' % (D.ctype, tr)]
                    k_ = 'TRAP' if tag == 'trap' else 'THROW'
                    defs = {'VP_%s_POS_OK' % k_: above(xin), 'VP_%s_NEG_OK' % k_: below(xin)}
                sname = 'vp_fconv_%s_%s_%s' % (tag, f, d)
                src[cfg].append(shim(d, sname, [(f, 'a')], 'return cnl::convert<%s, %s>{}(a);' % (TAGS[tag], cxx(d))))

                def forc(D, tag):
                    import math
                    def o(xv):
                        if xv != xv or xv in (float('inf'), float('-inf')):
                            return None
                        t = math.trunc(xv)
                        sig = 'trap' if tag == 'trap' else 'throw'
                        if t > D.max:
                            return ('value', D.max) if tag == 'sat' else (sig, 'positive overflow')
                        if t < D.min:
                            return ('value', D.min) if tag == 'sat' else (sig, 'negative overflow')
                        if xv > D.max or xv < D.min:
                            return ('defined',)
                        return ('value', t)
                    return o
                jobs.append(Job('%s.%s.convert_float.L1.%s.%s_%s' % (PROP, cfg, tag, f, d), 'C06_' + cfg,
                                r'^cnl::custom_operator<cnl::_impl::convert_op, cnl::op_value<%s, cnl::_impl::native_tag>, cnl::op_value<%s, %s> ?>::operator\(\)\(' % (F, dem(d), re.escape(TAGS[tag])),
                                Contract(requires=req, ensures=ens, assigns=[], note='float -> integer under tag %s: overflow iff trunc(x) leaves the destination range' % tag),
                                defines=defs, shim=sname, shim_types=[f], oracle=forc(D, tag), prop=PROP, timeout=300, layer=1))
    kernels = [Kernel('C06_clang', ''.join(src['clang']), [], 'portable (Clang) detection path'),
               Kernel('C06_gcc', ''.join(src['gcc']), ['-U__clang__'], 'intrinsic (GCC) detection path: clang front end with __clang__ undefined')]
    meta = {
        'instantiations': len(inst),
        'explanation': 'per-function contracts taken from the property statement, discharged by CBMC on C extracted from clang -O0 IR; '
                       'callers proved against callee contracts (goto-instrument --dfcc --replace-call-with-contract)',
        'not_applicable_parts': skipped + ['long double sources of convert (x87)'],
        'assumptions': ['-U__clang__ under clang selects the same preprocessor branches a GCC build selects'],
    }
    return {'kernels': kernels, 'jobs': jobs, 'meta': meta}


def C_int(v, D):
    if D.bits == 64:
        return ('(uint64_t)(%dLL%s)' % (v if v > -(2 ** 63) else v + 1, '' if v > -(2 ** 63) else ' - 1')) if D.signed else '%dULL' % v
    return '((%s)%d%s)' % (D.ctype, v, 'U' if not D.signed else '')


def _ret_short(oi):
    for k, v in CT.ALIAS.items():
        if v == oi.res.name and k[0] in 'iu':
            return k
    raise KeyError(oi.res.name)

"""C12 -- wrapping is transparent: native-tag wrappers compute what bare integers compute.

Number types: scaled_integer<T, power<0>>, overflow_integer<T, native_overflow_tag>,
rounding_integer<T, native_rounding_tag> and nestings of these.
Functions under contract, per operator and instantiation:
  L3  the public operator (cnl::_impl::operator+ ... on wrappers)        callee L2 replaced by its contract
  L2  cnl::custom_operator<Op, op_value<wrapper<..>>, op_value<wrapper<..>>>::operator()   callee L1/L2(inner) replaced
  L1  cnl::_impl::<op>_op::operator()<L,R>  (what native tags inherit)   leaf
Postcondition (statement): ret_rep == (l OP r) as C++ evaluates it on the underlying built-ins (promotion + usual
arithmetic conversions), under exactly the precondition 'the built-in expression is defined'; under it no UB
obligation may fail inside the wrapper either.  The promoted result representation is a compile-time fact.
Compound assignment, ++/-- and the documentation kernels are separate families below.
"""
import re

from vplib import cxxtypes as CT
from vplib.speclib import (KERNEL_HEAD, T, cxx, dem, W, wval, wconst, Contract, Job, Kernel, shim,
                           fact_shim, fact_job, arg_rep, builtin_sem, py_builtin, short_of)

PROP = 'C12'
OPS = {'add': '+', 'subtract': '-', 'multiply': '*', 'divide': '/', 'modulo': '%',
       'bitwise_and': '&', 'bitwise_or': '|', 'bitwise_xor': '^', 'shift_left': '<<', 'shift_right': '>>',
       'equal': '==', 'not_equal': '!=', 'less_than': '<', 'greater_than': '>', 'less_than_or_equal': '<=', 'greater_than_or_equal': '>='}
CMP = ('equal', 'not_equal', 'less_than', 'greater_than', 'less_than_or_equal', 'greater_than_or_equal')

NESTS = {
    's0': lambda t: 'cnl::scaled_integer<%s, cnl::power<0>>' % t,
    'on': lambda t: 'cnl::overflow_integer<%s, cnl::native_overflow_tag>' % t,
    'rn': lambda t: 'cnl::rounding_integer<%s, cnl::native_rounding_tag>' % t,
    's0_on': lambda t: 'cnl::scaled_integer<cnl::overflow_integer<%s, cnl::native_overflow_tag>, cnl::power<0>>' % t,
    'on_rn': lambda t: 'cnl::overflow_integer<cnl::rounding_integer<%s, cnl::native_rounding_tag>, cnl::native_overflow_tag>' % t,
}

P_PUBLIC = r'^auto cnl::_impl::operator(?:[-+*/%&|^]|<<|>>|==|!=|<=|>=|<|>)<cnl::_impl::wrapper<'
P_PUBLIC_ANY = r'^auto cnl::_impl::operator(?:==|!=|<=|>=|<|>)<'
P_WRAPOP = r'^cnl::custom_operator<cnl::_impl::\w+_op, cnl::op_value<cnl::_impl::wrapper<.*>::operator\(\)\(cnl::_impl::wrapper<'
P_PLAIN = r'cnl::_impl::\w+_op::operator\(\)<[a-z_0-9 ]+, [a-z_0-9 ]+>\('
P_TAGOP = r'^cnl::custom_operator<cnl::_impl::(?!convert_op)\w+_op, cnl::op_value<(?:unsigned |signed )?\w+, cnl::.*>::operator\(\)\((?:unsigned |signed )?\w+ const&'


def sem_contract(op, L, R, first):
    """contract generator: relation between the scalar reps behind parameters first, first+1 and the returned rep"""
    def gen(m, fi, tr):
        if fi['nparams'] != first + 2 or 'convert_op' in fi['demangled']:
            return None
        le, re_ = arg_rep(tr, fi, first), arg_rep(tr, fi, first + 1)
        s = builtin_sem(op, L, R, le, re_)
        if op in CMP:
            ens = ['($RET != 0) == %s' % s['value']]
        else:
            ens = ['(%s)$RET == %s' % (s['res'].ctype, s['value'])]
        return Contract(requires=s['requires'], ensures=ens, assigns=[],
                        note='ret == l %s r evaluated by the C++ rules for %s, %s' % (OPS[op], L.name, R.name))
    return gen


def oracle(op, L, R):
    def o(a, b):
        v = py_builtin(op, L, R, a, b)
        return None if v is None else ('value', v)
    return o


def unary_sem(op, L, le):
    """C++ value of the built-in unary expression on an operand of type L (integral promotion first)"""
    P = CT.promote(L)
    w = P.bits + 4
    v = wval(le, L, w)
    pc = '((%s)(%s)%s)' % (P.ctype, L.sctype, le)
    if op == 'minus':
        req = ['%s != %s' % (v, wconst(P.min, w))] if P.signed else []
        return dict(res=P, requires=req, value='((%s)(-%s))' % (P.ctype, v))
    if op == 'plus':
        return dict(res=P, requires=[], value=pc)
    return dict(res=P, requires=[], value='((%s)(~%s))' % (P.ctype, pc))


def py_unary(op, L, a):
    P = CT.promote(L)
    if op == 'minus':
        if P.signed and a == P.min:
            return None
        return CT.wrap(-a, P)
    if op == 'plus':
        return CT.wrap(a, P)
    return CT.wrap(~a, P)


def unary_contract(op, L):
    def gen(m, fi, tr):
        if fi['nparams'] != 1:
            return None
        s = unary_sem(op, L, arg_rep(tr, fi, 0))
        return Contract(requires=s['requires'], ensures=['(%s)$RET == %s' % (s['res'].ctype, s['value'])], assigns=[],
                        note='ret == %s x evaluated by the C++ rules for %s' % ({'minus': '-', 'plus': '+', 'bitwise_not': '~'}[op], L.name))
    return gen


def compound_contract(op, L, R):
    """a op= b: afterwards rep(a) == (L)(a op b) by the C++ rules, under exactly 'a op b is defined'"""
    def gen(m, fi, tr):
        if fi['nparams'] != 2:
            return None
        cur = arg_rep(tr, fi, 0)
        s = builtin_sem(op, L, R, '__CPROVER_old(%s)' % cur, arg_rep(tr, fi, 1))
        req = [r.replace('__CPROVER_old(%s)' % cur, cur) for r in s['requires']]
        return Contract(requires=req, ensures=['(%s)%s == (%s)%s' % (L.ctype, cur, L.ctype, s['value'])], assigns=['*a0'],
                        note='a %s= b leaves a == (%s)(a %s b)' % (OPS[op], L.name, OPS[op]))
    return gen


def py_compound(op, L, R):
    def o(a, b):
        v = py_builtin(op, L, R, a, b)
        return None if v is None else ('value', CT.wrap(v, L))
    return o


def step_contract(L, delta, post):
    def gen(m, fi, tr):
        cur = arg_rep(tr, fi, 0)
        P = CT.promote(L)
        w = P.bits + 4
        old = wval('__CPROVER_old(%s)' % cur, L, w)
        pre = wval(cur, L, w)
        e_pre = '(%s %s 1)' % (pre, '+' if delta > 0 else '-')
        e_old = '(%s %s 1)' % (old, '+' if delta > 0 else '-')
        req = ['%s >= %s && %s <= %s' % (e_pre, wconst(P.min, w), e_pre, wconst(P.max, w))] if P.signed else []
        ens = ['(%s)%s == (%s)%s' % (L.ctype, cur, L.ctype, e_old)]
        if post:
            ens.append('(%s)$RET == (%s)__CPROVER_old(%s)' % (L.ctype, L.ctype, cur))
        return Contract(requires=req, ensures=ens, assigns=['*a0'], note='%s%s: a == old(a) %s 1 converted back to %s%s'
                        % ('post' if post else 'pre', 'increment' if delta > 0 else 'decrement', '+' if delta > 0 else '-', L.name, '; returns the old value' if post else ''))
    return gen


def plan(tier):
    thorough = tier == 'thorough'
    src = [KERNEL_HEAD]
    jobs = []
    kname = 'C12'
    if thorough:
        types = [('i8', 'i8'), ('u8', 'i8'), ('i16', 'u16'), ('i32', 'i32'), ('u32', 'i32'), ('i32', 'u8'), ('i64', 'i64'), ('u64', 'i32'), ('i64', 'u64'), ('i16', 'i64')]
        nests = list(NESTS)
        ops = list(OPS)
    else:
        types = [('i8', 'i8'), ('i16', 'u16'), ('i32', 'i32'), ('u32', 'i32'), ('i64', 'i64')]
        nests = ['s0', 'on', 'rn', 's0_on']
        ops = list(OPS)
    n_inst = 0
    for nest in nests:
        for (l, r) in types:
            if nest not in ('s0', 'on') and (l, r) not in (('i32', 'i32'), ('u32', 'i32'), ('i16', 'u16'), ('i64', 'i64')):
                continue
            if not thorough and nest != 's0' and (l, r) not in (('i32', 'i32'), ('u32', 'i32')):
                continue
            L, R = T(l), T(r)
            A, B = NESTS[nest](cxx(l)), NESTS[nest](cxx(r))
            for op, sym in OPS.items():
                if op not in ops:
                    continue
                if not thorough and nest != 's0' and op not in ('add', 'subtract', 'multiply', 'divide', 'shift_right', 'less_than'):
                    continue
                heavy = op in ('multiply', 'divide', 'modulo') and L.bits + R.bits >= 32
                skip_leaf = False
                absm = dict(abstract_mul=True, abstract_div=True) if op in ('multiply', 'divide', 'modulo') else {}
                tag = '%s_%s_%s_%s' % (nest, op, l, r)
                sem = builtin_sem(op, L, R, 'x', 'y')
                Res = sem['res']
                rs = short_of(Res)
                sname = 'vp_' + tag
                if op in CMP:
                    body = 'return cnl::_impl::from_rep<%s>(a) %s cnl::_impl::from_rep<%s>(b);' % (A, sym, B)
                    src.append(shim('bool', sname, [(l, 'a'), (r, 'b')], body))
                else:
                    body = 'return cnl::unwrap(cnl::_impl::from_rep<%s>(a) %s cnl::_impl::from_rep<%s>(b));' % (A, sym, B)
                    src.append(shim(rs, sname, [(l, 'a'), (r, 'b')], body))
                    # same promoted result representation as the built-in expression
                    src.append(fact_shim('rep_' + tag, 'std::is_same_v<decltype(cnl::unwrap(%s{} %s %s{})), decltype(%s{} %s %s{})>'
                                         % (A, sym, B, cxx(l), sym, cxx(r))))
                    jobs.append(fact_job(PROP, kname, 'rep_' + tag, 1,
                                         'unwrap(%s %s %s) has the type of the built-in expression (%s)' % (A, sym, B, Res.name)))
                solvers = ('minisat',)
                common = dict(shim=sname, shim_types=[l, r], oracle=oracle(op, L, R), prop=PROP, via=sname,
                              solvers=solvers, timeout=120)
                c0, c1 = sem_contract(op, L, R, 0), sem_contract(op, L, R, 1)
                light = dict(common, solvers=('minisat',), timeout=120)
                jobs.append(Job('%s.L3.%s' % (PROP, tag), kname, P_PUBLIC, c0, replace=[(P_WRAPOP, c1)], layer=3, **light, **absm))
                jobs.append(Job('%s.L2.%s' % (PROP, tag), kname, P_WRAPOP, c1,
                                replace=[(P_WRAPOP, c1), (P_TAGOP, c1), (P_PLAIN, c1)], layer=2, **light, **absm))
                # a tag-level operator with a body of its own does not exist for native tags on the pinned tree (they inherit the plain
                # operator); should one appear, it is proved here rather than assumed by the L2 replacement
                jobs.append(Job('%s.L1t.%s' % (PROP, tag), kname, P_TAGOP, c1, replace=[(P_PLAIN, c1)], layer=1, optional=True, **light, **absm))
                if not skip_leaf:
                    jobs.append(Job('%s.L1.%s' % (PROP, tag), kname, P_PLAIN, c1, layer=1, optional=True, **light, **absm))
                n_inst += 1
    # wrapper OP built-in and built-in OP wrapper comparisons: the answer of the built-in comparison of rep and integer,
    # including integers that the wrapper's rep cannot represent
    for nest in (['s0', 'on', 'rn'] if thorough else ['s0', 'on']):
        for (l, r) in [('u8', 'i32'), ('i8', 'u8'), ('i32', 'u32')] + ([('i16', 'i64'), ('u32', 'i8')] if thorough else []):
            L, R = T(l), T(r)
            A = NESTS[nest](cxx(l))
            for op in (CMP if thorough else ('equal', 'less_than', 'greater_than')):
                for order in ('wb', 'bw'):
                    tag = '%s_%s_%s_%s_%s' % (order, nest, op, l, r)
                    sname = 'vp_' + tag
                    if order == 'wb':
                        src.append(shim('bool', sname, [(l, 'a'), (r, 'b')], 'return cnl::_impl::from_rep<%s>(a) %s b;' % (A, OPS[op])))
                        c0 = sem_contract(op, L, R, 0)
                        orc = oracle(op, L, R)
                        types = [l, r]
                    else:
                        src.append(shim('bool', sname, [(r, 'b'), (l, 'a')], 'return b %s cnl::_impl::from_rep<%s>(a);' % (OPS[op], A)))
                        c0 = sem_contract(op, R, L, 0)
                        orc = oracle(op, R, L)
                        types = [r, l]
                    jobs.append(Job('%s.L3.%s' % (PROP, tag), kname, P_PUBLIC_ANY, c0, via=sname, shim=sname, shim_types=types,
                                    oracle=orc, prop=PROP, timeout=120, layer=3))
                    n_inst += 1
    # unary operators, compound assignment, ++/--: whole public operator with everything inlined
    P_UN = r'^auto cnl::_impl::operator[-+~]<cnl::_impl::wrapper<[^()]*>\s?>\(cnl::_impl::wrapper<[^()]*> const&\)$'
    un_types = ['i8', 'i32', 'u32'] + (['u8', 'i16', 'i64', 'u64'] if thorough else [])
    for nest in (['s0', 'on', 'rn', 's0_on'] if thorough else ['s0', 'on', 'rn']):
        for l in un_types:
            if not thorough and nest != 's0' and l == 'i8':
                continue
            L = T(l)
            A = NESTS[nest](cxx(l))
            for op, sym in (('minus', '-'), ('plus', '+'), ('bitwise_not', '~')):
                tag = 'un_%s_%s_%s' % (nest, op, l)
                sname = 'vp_' + tag
                P = CT.promote(L)
                src.append(shim(short_of(P), sname, [(l, 'a')], 'return cnl::unwrap(%scnl::_impl::from_rep<%s>(a));' % (sym, A)))
                jobs.append(Job('%s.L3.%s' % (PROP, tag), kname, P_UN, unary_contract(op, L), via=sname, shim=sname, shim_types=[l],
                                oracle=(lambda op, L: lambda a: (lambda v: None if v is None else ('value', v))(py_unary(op, L, a)))(op, L),
                                prop=PROP, timeout=120, layer=3))
                n_inst += 1
    P_CA = r'^auto cnl::_impl::operator(?:[-+*/%&|^]|<<|>>)=<cnl::_impl::wrapper<'
    ca_types = [('i32', 'i32'), ('i16', 'i16'), ('u8', 'i32')] + ([('i8', 'i8'), ('u32', 'i32'), ('i16', 'u16'), ('i64', 'i32')] if thorough else [])
    ca_ops = ['add', 'subtract', 'multiply', 'divide', 'modulo', 'bitwise_and', 'bitwise_or', 'bitwise_xor', 'shift_left', 'shift_right']
    for nest in (['s0', 'on', 'rn'] if thorough else ['s0', 'on']):
        for (l, r) in ca_types:
            L, R = T(l), T(r)
            A, B = NESTS[nest](cxx(l)), NESTS[nest](cxx(r))
            for op in ca_ops:
                if not thorough and nest != 's0' and op not in ('add', 'multiply', 'shift_right'):
                    continue
                for rhs_kind in (('w', 'b') if (thorough or (l, r) == ('i32', 'i32')) else ('w',)):
                    tag = 'ca%s_%s_%s_%s_%s' % (rhs_kind, nest, op, l, r)
                    sname = 'vp_' + tag
                    rhs = 'cnl::_impl::from_rep<%s>(b)' % B if rhs_kind == 'w' else 'b'
                    src.append(shim(l, sname, [(l, 'a'), (r, 'b')], 'auto x = cnl::_impl::from_rep<%s>(a); x %s= %s; return cnl::unwrap(x);' % (A, OPS[op], rhs)))
                    absm = dict(abstract_mul=True, abstract_div=True) if op in ('multiply', 'divide', 'modulo') else {}
                    jobs.append(Job('%s.L3.%s' % (PROP, tag), kname, P_CA, compound_contract(op, L, R), via=sname, shim=sname, shim_types=[l, r],
                                    oracle=py_compound(op, L, R), prop=PROP, timeout=120, layer=3, skip_this=False, **absm))
                    n_inst += 1
    for nest in ['s0', 'on']:      # ++/-- on rounding_integer<T, native_rounding_tag> does not compile on the pinned tree (custom_operator specialisation mismatch)
        for l in (['i32', 'i8', 'u16'] + (['u32', 'i64'] if thorough else [])):
            L = T(l)
            A = NESTS[nest](cxx(l))
            for name, expr, delta, post in (('preinc', '++x', 1, False), ('predec', '--x', -1, False), ('postinc', 'x++', 1, True), ('postdec', 'x--', -1, True)):
                tag = 'st_%s_%s_%s' % (nest, name, l)
                sname = 'vp_' + tag
                src.append(shim(l, sname, [(l, 'a')], 'auto x = cnl::_impl::from_rep<%s>(a); %s; return cnl::unwrap(x);' % (A, expr)))
                pat = r'cnl::_impl::operator(\+\+|--)<cnl::_impl::wrapper<[^()]*>\s?>\(cnl::_impl::wrapper<[^()]*>&%s\)$' % (', int' if post else '')
                P = CT.promote(L)
                orc = (lambda L, P, delta: lambda a: None if (P.signed and not P.min <= a + delta <= P.max) else ('value', CT.wrap(a + delta, L)))(L, P, delta)
                jobs.append(Job('%s.L3.%s' % (PROP, tag), kname, pat, step_contract(L, delta, post), via=sname, shim=sname, shim_types=[l],
                                oracle=orc, prop=PROP, timeout=120, layer=3, skip_this=False))
                n_inst += 1
    # the GCC detection path (-U__clang__: __builtin_*_overflow + polarity guess) also sits under native_overflow_tag for + - *:
    # the same equality with the built-in expression, whole public operator inlined, in a second kernel
    src_g = [KERNEL_HEAD]
    for nest in (['on', 's0_on'] if thorough else ['on']):
        for (l, r) in [('i32', 'i32'), ('i32', 'u32'), ('u32', 'i32')] + ([('i8', 'i8'), ('i64', 'i64'), ('i16', 'u16'), ('u64', 'i32')] if thorough else []):
            L, R = T(l), T(r)
            A, B = NESTS[nest](cxx(l)), NESTS[nest](cxx(r))
            for op in ('add', 'subtract', 'multiply'):
                if op == 'multiply' and L.signed != R.signed:
                    continue        # clang lowers the mixed-sign intrinsic through an i65/i33 product: its nsw obligation needs the machine product, the
                                    # value clause needs the abstraction -- not claimed for this shape
                sym = OPS[op]
                tag = 'gcc_%s_%s_%s_%s' % (nest, op, l, r)
                sname = 'vp_' + tag
                Res = builtin_sem(op, L, R, 'x', 'y')['res']
                src_g.append(shim(short_of(Res), sname, [(l, 'a'), (r, 'b')], 'return cnl::unwrap(cnl::_impl::from_rep<%s>(a) %s cnl::_impl::from_rep<%s>(b));' % (A, sym, B)))
                absm = dict(abstract_mul=True) if op == 'multiply' else {}
                jobs.append(Job('%s.L3.%s' % (PROP, tag), 'C12_gcc', P_PUBLIC, sem_contract(op, L, R, 0), via=sname, shim=sname, shim_types=[l, r],
                                oracle=oracle(op, L, R), prop=PROP, timeout=120, layer=3, **absm))
                n_inst += 1
    k = Kernel(kname, ''.join(src), [], 'native-tag wrappers')
    kg = Kernel('C12_gcc', ''.join(src_g), ['-U__clang__'], 'native-tag wrappers, GCC detection path')
    meta = {'instantiations': n_inst,
            'explanation': 'wrapper operators proved equal to the built-in expression on the reps, layer by layer; the promoted result type is a compile-time fact',
            'not_applicable_parts': ['64x64-bit multiply/divide equalities (same-circuit, beyond SAT budget)',
                                     'comparison "as compiled IR" of whole kernels: replaced here by per-function contracts'],
            'assumptions': []}
    return {'kernels': [k, kg], 'jobs': jobs, 'meta': meta}

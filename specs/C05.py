"""C05 -- elastic_integer arithmetic never overflows and stays within its declared digits.

Functions under contract:
  L0  cnl::_impl::<op>_op::operator()<Rep,Rep>                 built-in operator on the result rep (requires: no wrap)
  L1  cnl::custom_operator<Op, op_value<L, elastic_tag<Dl,Nl>>, op_value<R, elastic_tag<Dr,Nr>>>::operator()
  L2  cnl::custom_operator<Op, op_value<wrapper<L,elastic_tag..>>, op_value<wrapper<R,elastic_tag..>>>::operator()
  L3  the public operator on cnl::elastic_integer
Contract (statement): requires |l| <= 2^Dl-1, |r| <= 2^Dr-1 (>= 0 when unsigned; r != 0 for / %) -- the type invariant;
ensures value(ret) == l (op) r exactly AND -(2^D-1) <= ret <= 2^D-1 (0 <= ret when the result is unsigned), where D and
the signedness are those the library itself reports for the result type (digits_v / signedness_v, read from the IR as
compile-time facts).  Because L1 is proved with the built-in operator replaced by its contract 'no wrap in the result
rep', a digit rule one bit short or an operand converted to a too-narrow type fails a named obligation.
"""
import re

from vplib import cxxtypes as CT
from vplib.speclib import (KERNEL_HEAD, T, cxx, dem, W, wval, wconst, Contract, Job, Kernel, shim, trunc_div,
                           fact_shim, fact_job, fact_value, arg_rep, builtin_sem, bits_for, short_of)

PROP = 'C05'
OPS = {'add': '+', 'subtract': '-', 'multiply': '*', 'divide': '/', 'modulo': '%'}
P_PUBLIC = r'^auto cnl::_impl::operator[-+*/%]<cnl::_impl::wrapper<'
P_WRAPOP = r'^cnl::custom_operator<cnl::_impl::\w+_op, cnl::op_value<cnl::_impl::wrapper<.*>::operator\(\)\(cnl::_impl::wrapper<'
P_TAGOP = r'^cnl::custom_operator<cnl::_impl::\w+_op, cnl::op_value<[a-z_0-9 ]+, cnl::elastic_tag<.*>::operator\(\)\('
P_PLAIN = r'cnl::_impl::(?P<op>add|subtract|multiply|divide|modulo)_op::operator\(\)<(?P<L>[a-z_0-9 ]+), (?P<Rh>[a-z_0-9 ]+)>\('
OPNAME = {'add': 'add', 'subtract': 'subtract', 'multiply': 'multiply', 'divide': 'divide', 'modulo': 'modulo'}


def rep_of(D, N):
    """storage type of elastic_integer<D, N>: narrowest integer of N's signedness with at least max(digits(N), D) digits"""
    need = max(N.digits, D)
    for b in (8, 16, 32, 64, 128):
        d = b - 1 if N.signed else b
        if d >= need:
            return CT.ty(('i' if N.signed else 'u') + str(b))
    return None


def exact_expr(op, lv, rv):
    return '(%s %s %s)' % (lv, OPS[op], rv)      # C's / and % on signed vectors are the truncating ones of the statement


def py_exact(op, a, b):
    if op == 'add':
        return a + b
    if op == 'subtract':
        return a - b
    if op == 'multiply':
        return a * b
    if b == 0:
        return None
    q = trunc_div(a, b)
    return q if op == 'divide' else a - q * b


def c_plain(m, fi, tr):
    """built-in operator on the result rep: defined iff no wrap; then the exact value"""
    L, Rh = CT.ty(m['L']), CT.ty(m['Rh'])
    s = builtin_sem(m['op'], L, Rh, '(*a1)', '(*a2)')
    Res = s['res']
    req = list(s['requires'])
    if not Res.signed and m['op'] in ('add', 'subtract', 'multiply'):
        # unsigned wrap is defined in C++, but here it would be a wrapped elastic result: demand the exact value fits
        w = s['w']
        ex = '(%s %s %s)' % (wval('(*a1)', L, w), OPS[m['op']], wval('(*a2)', Rh, w))
        req.append('%s >= 0 && %s <= %s' % (ex, ex, wconst(Res.max, w)))
    return Contract(requires=req, ensures=['(%s)$RET == %s' % (Res.ctype, s['value'])], assigns=[],
                    note='built-in %s on %s, %s without wrap' % (m['op'], L.name, Rh.name))


def c_plain_abs(m, fi, tr):
    """built-in multiply on the result rep as the (abstracted) machine product; its no-overflow side is the interval fact"""
    L, Rh = CT.ty(m['L']), CT.ty(m['Rh'])
    s = builtin_sem(m['op'], L, Rh, '(*a1)', '(*a2)')
    return Contract(requires=[], ensures=['(%s)$RET == %s' % (s['res'].ctype, s['value'])], assigns=[],
                    note='machine %s on %s, %s (abstracted)' % (m['op'], L.name, Rh.name))


def elastic_contract(op, Dl, LR, Dr, RR, tag, first, abstract=False):
    """LR/RR: IntT of the operand reps"""
    def gen(m, fi, tr):
        if fi['nparams'] != first + 2:
            return None
        Dres = fact_value(tr, 'dig_' + tag)
        sres = fact_value(tr, 'sgn_' + tag)
        bres = fact_value(tr, 'bits_' + tag)
        Res = CT.ty(('i' if sres else 'u') + str(bres))
        le, re_ = arg_rep(tr, fi, first), arg_rep(tr, fi, first + 1)
        if abstract:
            # wide multiplication: the result is the machine product, at the result rep's width, of the operands converted
            # value-preservingly to the result rep (multiplication abstracted: congruence).  That this product is the exact
            # one and lies within the declared digits is the interval lemma |l*r| <= max|l|*max|r| evaluated on the digits
            # (compile-time fact rng_<tag>), not a SAT question.
            lc = '((%s)(%s)%s)' % (Res.ctype, LR.sctype, le)
            rc = '((%s)(%s)%s)' % (Res.ctype, RR.sctype, re_)
            w0 = max(LR.bits, RR.bits) + 4
            lv0, rv0 = wval(le, LR, w0), wval(re_, RR, w0)
            req0 = ['%s >= %s && %s <= %s' % (lv0, wconst(-(2 ** Dl - 1) if LR.signed else 0, w0), lv0, wconst(2 ** Dl - 1, w0)),
                    '%s >= %s && %s <= %s' % (rv0, wconst(-(2 ** Dr - 1) if RR.signed else 0, w0), rv0, wconst(2 ** Dr - 1, w0))]
            return Contract(requires=req0, ensures=['(%s)$RET == VP_MUL%d(%s, %s)' % (Res.ctype, Res.bits, lc, rc)], assigns=[],
                            note='machine product at the result rep width of the value-preservingly converted operands (multiplication abstracted)')
        w = max(LR.bits + RR.bits, bres, Dres) + 4
        lv, rv = wval(le, LR, w), wval(re_, RR, w)
        req = ['%s >= %s && %s <= %s' % (lv, wconst(-(2 ** Dl - 1) if LR.signed else 0, w), lv, wconst(2 ** Dl - 1, w)),
               '%s >= %s && %s <= %s' % (rv, wconst(-(2 ** Dr - 1) if RR.signed else 0, w), rv, wconst(2 ** Dr - 1, w))]
        if op in ('divide', 'modulo'):
            req.append('%s != 0' % rv)
        if op in ('divide', 'modulo'):
            # operands are within the result rep's range (type invariant), so the truncating quotient / remainder of the
            # mathematical values is the one computed at the result rep's own width (keeps a single divider in the proof)
            Wd = CT.ty(('i' if (LR.signed or RR.signed) else 'u') + str(max(LR.bits, RR.bits, Res.bits)))
            if LR.signed != RR.signed:      # mixed signedness: one more bit so that both operand ranges fit
                Wd = CT.ty('i' + str(min(128, 2 * max(LR.bits, RR.bits))))
            ex = wval('((%s)((%s)%s %s (%s)%s))' % (Wd.ctype, Wd.sctype, lv, OPS[op], Wd.sctype, rv), Wd, w)
        else:
            ex = exact_expr(op, lv, rv)
        ret = wval('$RET', Res, w)
        ens = ['%s == %s' % (ret, ex),
               '%s >= %s && %s <= %s' % (ret, wconst(-(2 ** Dres - 1) if sres else 0, w), ret, wconst(2 ** Dres - 1, w))]
        return Contract(requires=req, ensures=ens, assigns=[],
                        note='exact result, within the %d digits (%s) numeric_limits reports for the result type' % (Dres, 'signed' if sres else 'unsigned'))
    return gen


def oracle(op, Dl, LR, Dr, RR, tag=None):
    def o(a, b, _tr=None):
        lo_l = -(2 ** Dl - 1) if LR.signed else 0
        lo_r = -(2 ** Dr - 1) if RR.signed else 0
        if not (lo_l <= a <= 2 ** Dl - 1 and lo_r <= b <= 2 ** Dr - 1):
            return None
        e = py_exact(op, a, b)
        if e is None:
            return None
        if _tr is not None and tag is not None:
            # the declared range of the result type (digits / signedness as the library reports them) must hold the exact value:
            # if it cannot, no returned rep is acceptable
            D, sg = fact_value(_tr, 'dig_' + tag), fact_value(_tr, 'sgn_' + tag)
            if not ((-(2 ** D - 1) if sg else 0) <= e <= 2 ** D - 1):
                return ('unrepresentable', 'exact result %d is outside the %d-digit %s range of the result type' % (e, D, 'signed' if sg else 'unsigned'))
        return ('value', e)
    o.wants_tr = True
    return o


INST_Q = [(7, 'i32', 7, 'i32'), (31, 'i32', 31, 'i32'), (8, 'u8', 8, 'u8'), (15, 'i16', 16, 'u16'), (31, 'i32', 32, 'u32'),
          (1, 'i32', 1, 'i32'), (24, 'i32', 7, 'i8'), (33, 'i32', 30, 'i64'), (7, 'i8', 15, 'i8'), (4, 'i8', 8, 'u8')]
INST_T = INST_Q + [(63, 'i32', 63, 'i32'), (64, 'u32', 63, 'i32'), (2, 'i8', 7, 'i8'), (16, 'u8', 15, 'i8'), (32, 'u64', 31, 'i32'),
                   (62, 'i64', 1, 'i64'), (7, 'u8', 8, 'i32'), (40, 'i32', 24, 'u32')]


def plan(tier):
    thorough = tier == 'thorough'
    TIER[0] = tier
    src = [KERNEL_HEAD]
    jobs = []
    kname = 'C05'
    n = 0
    skipped = []
    for (Dl, nl, Dr, nr) in (INST_T if thorough else INST_Q):
        NL, NR = T(nl), T(nr)
        LR, RR = rep_of(Dl, NL), rep_of(Dr, NR)
        A = 'cnl::elastic_integer<%d, %s>' % (Dl, cxx(nl))
        B = 'cnl::elastic_integer<%d, %s>' % (Dr, cxx(nr))
        l, r = short_of(LR), short_of(RR)
        for op, sym in OPS.items():
            tag = '%s_%d%s_%d%s' % (op, Dl, nl, Dr, nr)
            prod_bits = (Dl + Dr) if op == 'multiply' else 0
            wide_mul = op == 'multiply' and Dl + Dr > 16 and Dl + Dr <= 126 and max(Dl, Dr) <= 63
            heavy = (op == 'multiply' and Dl + Dr > 16 and not wide_mul) or (op in ('divide', 'modulo') and max(Dl, Dr) > 8)
            if heavy and (not thorough or Dl + Dr > 64 or (op != 'multiply' and max(Dl, Dr) > 33)):
                skipped.append('%s %s %s: multiplier/divider equality beyond SAT budget in this tier' % (A, sym, B))
                continue
            if op in ('divide', 'modulo') and (Dl, nl, Dr, nr) != (4, 'i8', 8, 'u8'):
                # instantiations whose divisor (or, for %, dividend) has more digits / a wider rep than the result rep hit the known
                # finding C05-divmod-operand-narrowed; it is registered on one witness instantiation (4i8_8u8), the others are not planned
                if nl != nr or (op == 'divide' and Dr > Dl) or (op == 'modulo' and Dr != Dl) or max(Dl, Dr) > 16:
                    skipped.append('%s %s %s: same defect class as the registered finding, or divider obligation beyond SAT budget' % (A, sym, B))
                    continue
            if prod_bits > 127 or (op in ('add', 'subtract') and max(Dl, Dr) + 1 > 127):
                skipped.append('%s %s %s: result needs wide_integer storage (see C10)' % (A, sym, B))
                continue
            E = 'decltype(%s{} %s %s{})' % (A, sym, B)
            src.append(fact_shim('dig_' + tag, 'cnl::digits_v<%s>' % E))
            src.append(fact_shim('sgn_' + tag, 'cnl::numbers::signedness_v<%s>' % E))
            src.append(fact_shim('bits_' + tag, 'sizeof(cnl::_impl::rep_of_t<%s>) * 8' % E))
            # numeric_limits of the result type report exactly the symmetric range of its digits
            src.append(fact_shim('lim_' + tag,
                                 '(std::numeric_limits<%s>::max() == cnl::_impl::from_rep<%s>((cnl::_impl::rep_of_t<%s>(1) << (cnl::digits_v<%s> - 1)) - 1 + (cnl::_impl::rep_of_t<%s>(1) << (cnl::digits_v<%s> - 1)))) '
                                 '&& (std::numeric_limits<%s>::lowest() == (cnl::numbers::signedness_v<%s> ? -std::numeric_limits<%s>::max() : %s{0}))'
                                 % (E, E, E, E, E, E, E, E, E, E)))
            jobs.append(fact_job(PROP, kname, 'lim_' + tag, 1, 'numeric_limits<%s>: max == 2^digits - 1, lowest == -max (0 if unsigned)' % E))
            sname = 'vp_' + tag
            src.append(shim('auto', sname, [(l, 'a'), (r, 'b')],
                            'return cnl::_impl::to_rep(cnl::_impl::from_rep<%s>(a) %s cnl::_impl::from_rep<%s>(b));' % (A, sym, B)))
            solvers = ('cadical', 'kissat') if heavy else ('minisat',)
            common = dict(shim=sname, shim_types=[l, r], oracle=oracle(op, Dl, LR, Dr, RR, tag), prop=PROP, via=sname,
                          solvers=solvers, timeout=900 if heavy else 120)
            c0 = elastic_contract(op, Dl, LR, Dr, RR, tag, 0, abstract=wide_mul)
            c1 = elastic_contract(op, Dl, LR, Dr, RR, tag, 1, abstract=wide_mul)
            if wide_mul:
                common.update(abstract_mul=True, solvers=('minisat',), timeout=120)
                src.append(fact_shim('rng_' + tag,
                                     '((((unsigned __int128)1 << %d) - 1) * (((unsigned __int128)1 << %d) - 1) <= (((unsigned __int128)1 << cnl::digits_v<%s>) - 1)) '
                                     '&& (cnl::digits_v<%s> <= cnl::digits_v<cnl::_impl::rep_of_t<%s>>)' % (Dl, Dr, E, E, E)))
                jobs.append(fact_job(PROP, kname, 'rng_' + tag, 1,
                                     'interval lemma on the digits: (2^%d-1)*(2^%d-1) <= 2^D-1 and D fits the result rep, so the machine product is exact and within the declared range' % (Dl, Dr)))
            jobs.append(Job('%s.L3.%s' % (PROP, tag), kname, P_PUBLIC, c0, replace=[(P_WRAPOP, c1)], layer=3, **common))
            jobs.append(Job('%s.L2.%s' % (PROP, tag), kname, P_WRAPOP, c1, replace=[(P_TAGOP, c1)], layer=2, **common))
            jobs.append(Job('%s.L1.%s' % (PROP, tag), kname, P_TAGOP, c1, replace=[(P_PLAIN, c_plain_abs if wide_mul else c_plain)], layer=1, **common))
            n += 1
    # shifts by a compile-time constant: elastic_integer<D> << constant<R> has D+R digits and the exact value l * 2^R
    for (D, nn, R) in [(31, 'i32', 1), (16, 'i32', 16), (7, 'u8', 3), (40, 'i64', 24)] + ([(63, 'i64', 1), (20, 'u32', 34), (15, 'i16', 17)] if thorough else []):
        N_ = T(nn)
        LR = rep_of(D, N_)
        A = 'cnl::elastic_integer<%d, %s>' % (D, cxx(nn))
        tag = 'shl_%d%s_%d' % (D, nn, R)
        E = 'decltype(%s{} << cnl::constant<%d>{})' % (A, R)
        src.append(fact_shim('dig_' + tag, 'cnl::digits_v<%s>' % E))
        src.append(fact_shim('sgn_' + tag, 'cnl::numbers::signedness_v<%s>' % E))
        src.append(fact_shim('bits_' + tag, 'sizeof(cnl::_impl::rep_of_t<%s>) * 8' % E))
        sname = 'vp_' + tag
        src.append(shim('auto', sname, [(short_of(LR), 'a')],
                        'return cnl::_impl::to_rep(cnl::_impl::from_rep<%s>(a) << cnl::constant<%d>{});' % (A, R)))

        def c_shl(D, LR, R, tag):
            def gen(m, fi, tr):
                Dres, sres, bres = fact_value(tr, 'dig_' + tag), fact_value(tr, 'sgn_' + tag), fact_value(tr, 'bits_' + tag)
                Res = CT.ty(('i' if sres else 'u') + str(bres))
                w = max(LR.bits + R, bres) + 4
                lv = wval(arg_rep(tr, fi, 0), LR, w)
                ret = wval('$RET', Res, w)
                ex = '(%s * %s)' % (lv, wconst(2 ** R, w))
                return Contract(requires=['%s >= %s && %s <= %s' % (lv, wconst(-(2 ** D - 1) if LR.signed else 0, w), lv, wconst(2 ** D - 1, w))],
                                ensures=['%s == %s' % (ret, ex), '%s >= %s && %s <= %s' % (ret, wconst(-(2 ** Dres - 1) if sres else 0, w), ret, wconst(2 ** Dres - 1, w))],
                                assigns=[], note='exact l * 2^%d within the digits of the result type' % R)
            return gen
        jobs.append(Job('%s.L3.%s' % (PROP, tag), kname, r'^auto cnl::_impl::operator<<<cnl::_impl::wrapper<', c_shl(D, LR, R, tag), via=sname,
                        shim=sname, shim_types=[short_of(LR)], prop=PROP, timeout=120, layer=3,
                        oracle=(lambda D, LR, R: lambda a: None if not ((-(2 ** D - 1) if LR.signed else 0) <= a <= 2 ** D - 1) else ('value', a * 2 ** R))(D, LR, R)))
    # elastic_integer OP built-in integer (either order): the integer is lifted to an elastic_integer of its own digits and SIGNEDNESS
    # (seed C05_4: lifted with the elastic operand's signedness instead); exact result within the digits the result type reports
    for (D, nn, b, order, ops_) in [(8, 'u32', 'i32', 'eb', ('add', 'subtract')), (8, 'u8', 'i8', 'be', ('add', 'multiply')), (7, 'i8', 'u8', 'eb', ('subtract', 'multiply'))] + \
                                   ([(8, 'u32', 'i32', 'be', ('add', 'subtract')), (16, 'u16', 'i16', 'eb', ('add', 'subtract')), (15, 'i16', 'u32', 'be', ('add',))] if thorough else []):
        N_, BT = T(nn), T(b)
        ER = rep_of(D, N_)
        A = 'cnl::elastic_integer<%d, %s>' % (D, cxx(nn))
        for op in ops_:
            sym = OPS[op]
            tag = '%s_%s_%d%s_%s' % (order, op, D, nn, b)
            if order == 'eb':
                E = 'decltype(%s{} %s %s{})' % (A, sym, cxx(b))
                body = 'return cnl::_impl::to_rep(cnl::_impl::from_rep<%s>(a) %s b);' % (A, sym)
                params, types = [(short_of(ER), 'a'), (b, 'b')], [short_of(ER), b]
                cargs = (op, D, ER, BT.digits, BT)
            else:
                E = 'decltype(%s{} %s %s{})' % (cxx(b), sym, A)
                body = 'return cnl::_impl::to_rep(b %s cnl::_impl::from_rep<%s>(a));' % (sym, A)
                params, types = [(b, 'b'), (short_of(ER), 'a')], [b, short_of(ER)]
                cargs = (op, BT.digits, BT, D, ER)
            src.append(fact_shim('dig_' + tag, 'cnl::digits_v<%s>' % E))
            src.append(fact_shim('sgn_' + tag, 'cnl::numbers::signedness_v<%s>' % E))
            src.append(fact_shim('bits_' + tag, 'sizeof(cnl::_impl::rep_of_t<%s>) * 8' % E))
            sname = 'vp_' + tag
            src.append(shim('auto', sname, params, body))
            jobs.append(Job('%s.L3.%s' % (PROP, tag), kname, r'^auto cnl::_impl::operator[-+*]<', elastic_contract(*cargs, tag, 0), via=sname,
                            shim=sname, shim_types=types, oracle=oracle(*cargs, tag), prop=PROP, timeout=300, layer=3,
                            solvers=('minisat', 'cadical') if op == 'multiply' else ('minisat',)))
    # unary minus: -elastic_integer<D, N> is signed with D digits and holds -l exactly (whole public operator, everything inlined)
    for (D, nn) in [(7, 'i8'), (8, 'u8'), (16, 'u16'), (31, 'i32'), (32, 'u32'), (63, 'i64')] + ([(64, 'u64'), (1, 'u32'), (33, 'u32'), (20, 'u8'), (15, 'i16')] if thorough else []):
        N_ = T(nn)
        LR = rep_of(D, N_)
        A = 'cnl::elastic_integer<%d, %s>' % (D, cxx(nn))
        tag = 'minus_%d%s' % (D, nn)
        E = 'decltype(-%s{})' % A
        src.append(fact_shim('dig_' + tag, 'cnl::digits_v<%s>' % E))
        src.append(fact_shim('sgn_' + tag, 'cnl::numbers::signedness_v<%s>' % E))
        src.append(fact_shim('bits_' + tag, 'sizeof(cnl::_impl::rep_of_t<%s>) * 8' % E))
        sname = 'vp_' + tag
        src.append(shim('auto', sname, [(short_of(LR), 'a')], 'return cnl::_impl::to_rep(-cnl::_impl::from_rep<%s>(a));' % A))

        def c_minus(D, LR, tag):
            def gen(m, fi, tr):
                if fi['nparams'] != 1:
                    return None
                Dres, sres, bres = fact_value(tr, 'dig_' + tag), fact_value(tr, 'sgn_' + tag), fact_value(tr, 'bits_' + tag)
                Res = CT.ty(('i' if sres else 'u') + str(bres))
                w = max(LR.bits, bres) + 4
                lv = wval(arg_rep(tr, fi, 0), LR, w)
                ret = wval('$RET', Res, w)
                return Contract(requires=['%s >= %s && %s <= %s' % (lv, wconst(-(2 ** D - 1) if LR.signed else 0, w), lv, wconst(2 ** D - 1, w))],
                                ensures=['%s == -%s' % (ret, lv), '%s >= %s && %s <= %s' % (ret, wconst(-(2 ** Dres - 1) if sres else 0, w), ret, wconst(2 ** Dres - 1, w))],
                                assigns=[], note='exact -l within the digits of the result type')
            return gen

        def o_minus(D, LR, tag):
            def o(a, _tr=None):
                if not ((-(2 ** D - 1) if LR.signed else 0) <= a <= 2 ** D - 1):
                    return None
                if _tr is not None:
                    Dr_, sg = fact_value(_tr, 'dig_' + tag), fact_value(_tr, 'sgn_' + tag)
                    if not ((-(2 ** Dr_ - 1) if sg else 0) <= -a <= 2 ** Dr_ - 1):
                        return ('unrepresentable', 'exact result %d is outside the declared range of the result type' % -a)
                return ('value', -a)
            o.wants_tr = True
            return o
        jobs.append(Job('%s.L3.%s' % (PROP, tag), kname, r'^auto cnl::_impl::operator-<cnl::_impl::wrapper<', c_minus(D, LR, tag), via=sname,
                        shim=sname, shim_types=[short_of(LR)], prop=PROP, timeout=120, layer=3, oracle=o_minus(D, LR, tag)))
    jobs.append(('LEAVES', kname, P_PLAIN, c_plain_leaf, 'L0.plain_op', dict(abstract_mul=True, abstract_div=True, timeout=300)))
    k = Kernel(kname, ''.join(src), [], 'elastic_integer operators')
    meta = {'instantiations': n,
            'explanation': 'exact value and declared-range postconditions per layer; digits/signedness of the result type are read from the IR as the library reports them',
            'not_applicable_parts': skipped + ['results that need multi-word (wide_integer) storage: see C10',
                                               'right shift by a constant (not an exact operation); comparisons: see C03'],
            'assumptions': []}
    return {'kernels': [k], 'jobs': jobs, 'meta': meta}


TIER = ['quick']


def c_plain_leaf(m, fi, tr):
    L, Rh = CT.ty(m['L']), CT.ty(m['Rh'])
    if m['op'] in ('multiply', 'divide', 'modulo') and L.bits + Rh.bits > (64 if TIER[0] == 'thorough' else 32):
        return None
    return c_plain(m, fi, tr)

"""C02 -- division, remainder and quotient() obey the integer-division contract.

Functions under contract:
  L0  cnl::_impl::divide_op / modulo_op ::operator()<L,R>          built-in / and % on the promoted reps
        8/16-bit: proved against the division-free characterisation q*b + r == a, |r| < |b|, r == 0 or sgn r == sgn a
  L2  cnl::custom_operator<divide_op|modulo_op, op_value<wrapper<L,power<El>>>, op_value<wrapper<R,power<Er>>>>::operator()
  L3  operator/ and operator% on scaled_integer: rep == l / r resp. l % r (applied directly to the reps),
        exponent exp(a)-exp(b) resp. exp(a) (compile-time facts)  ==> (a/b)*b + a%b == a exactly, by the rep identity above
  Q   cnl::quotient(a, b): value == trunc(a / b) at the result resolution: |ret*b - a*2^s| < |b| with the right sign, for every
        input (b != 0) -- 'wide enough that no input can overflow' is the set of UB obligations of the widening code.
"""
from vplib import cxxtypes as CT
from vplib.speclib import (KERNEL_HEAD, T, cxx, dem, W, wval, wconst, Contract, Job, Kernel, shim, fact_shim, fact_job, fact_value,
                           arg_rep, builtin_sem, py_builtin, short_of, trunc_div)
from specs.C12 import sem_contract, oracle as sem_oracle, P_PUBLIC, P_WRAPOP, P_PLAIN, P_TAGOP

PROP = 'C02'
OPS = {'divide': '/', 'modulo': '%'}


def leaf_contract(op, L, R):
    """division-free characterisation of the built-in operator (language definition), provable for narrow operands"""
    Res = CT.common(L, R)
    w = 2 * Res.bits + 6
    a = wval('((%s)%s)' % (Res.ctype, wval('(*a1)', L, w)), Res, w)
    b = wval('((%s)%s)' % (Res.ctype, wval('(*a2)', R, w)), Res, w)
    ret = wval('$RET', Res, w)
    req = ['%s != 0' % b]
    if Res.signed:
        req.append('!(%s == %s && %s == -1)' % (a, wconst(Res.min, w), b))
    ab = lambda e: '(%s < 0 ? -%s : %s)' % (e, e, e)
    if op == 'divide':
        d = '(%s - %s * %s)' % (a, ret, b)
        ens = ['%s < %s' % (ab(d), ab(b)), '%s == 0 || ((%s < 0) == (%s < 0))' % (d, d, a)]
    else:
        # r = a - q*b for some q: (a - r) divisible by b, |r| < |b|, sign of a
        ens = ['%s < %s' % (ab(ret), ab(b)), '%s == 0 || ((%s < 0) == (%s < 0))' % (ret, ret, a),
               '(%s - %s) %% %s == 0' % (a, ret, b)]
    return Contract(requires=req, ensures=ens, assigns=[], note='C++ definition of %s on %s' % (OPS[op], Res.name))


def quotient_contract(LA, Ea, LB, Eb, tag):
    def gen(m, fi, tr):
        Er = fact_value(tr, 'qexp_' + tag)
        bits = fact_value(tr, 'qbits_' + tag)
        sgn = fact_value(tr, 'qsgn_' + tag)
        Res = CT.ty(('i' if sgn else 'u') + str(bits))
        s = Ea - Eb - Er
        if s < 0:
            raise ValueError('unexpected negative pre-shift')
        w = max(LA.bits + s, Res.bits + LB.bits) + 6
        a = '(%s * %s)' % (wval(arg_rep(tr, fi, 0), LA, w), wconst(2 ** s, w))
        b = wval(arg_rep(tr, fi, 1), LB, w)
        q = wval('$RET', Res, w)
        d = '(%s - %s * %s)' % (a, q, b)
        ab = lambda e: '(%s < 0 ? -%s : %s)' % (e, e, e)
        return Contract(requires=['%s != 0' % b],
                        ensures=['%s < %s' % (ab(d), ab(b)), '%s == 0 || ((%s < 0) == (%s < 0))' % (d, d, a)],
                        assigns=[], note='true quotient truncated toward zero at the result resolution 2^%d (pre-shift 2^%d)' % (Er, s))
    return gen


def plan(tier):
    thorough = tier == 'thorough'
    src = [KERNEL_HEAD]
    jobs = []
    kname = 'C02'
    inst = [('i8', -4, 'i8', -2), ('i16', -8, 'i8', 0), ('u8', 0, 'u8', -3), ('i32', -16, 'i32', -8)]
    if thorough:
        inst += [('i16', -4, 'i16', -12), ('u16', 2, 'u8', -1), ('i32', 0, 'i16', -5), ('i64', -20, 'i32', -10)]
    for (l, el, r, er) in inst:
        L, R = T(l), T(r)
        A = 'cnl::scaled_integer<%s, cnl::power<%d>>' % (cxx(l), el)
        B = 'cnl::scaled_integer<%s, cnl::power<%d>>' % (cxx(r), er)
        for op, sym in OPS.items():
            tag = '%s_%s_%s_%s_%s' % (op, l, str(el).replace('-', 'm'), r, str(er).replace('-', 'm'))
            sem = builtin_sem(op, L, R, 'x', 'y')
            Res = sem['res']
            sname = 'vp_' + tag
            src.append(shim(short_of(Res), sname, [(l, 'a'), (r, 'b')],
                            'return cnl::_impl::to_rep(cnl::_impl::from_rep<%s>(a) %s cnl::_impl::from_rep<%s>(b));' % (A, sym, B)))
            src.append(fact_shim('exp_' + tag, 'cnl::_impl::tag_of_t<decltype(%s{} %s %s{})>::exponent' % (A, sym, B)))
            jobs.append(fact_job(PROP, kname, 'exp_' + tag, (el - er) if op == 'divide' else el,
                                 'exponent of a %s b is %s' % (sym, 'exp(a) - exp(b)' if op == 'divide' else 'exp(a)')))
            common = dict(shim=sname, shim_types=[l, r], oracle=sem_oracle(op, L, R), prop=PROP, via=sname, timeout=300)
            c0, c1 = sem_contract(op, L, R, 0), sem_contract(op, L, R, 1)
            jobs.append(Job('%s.L3.%s' % (PROP, tag), kname, P_PUBLIC, c0, replace=[(P_WRAPOP, c1)], layer=3, abstract_div=True, **common))
            jobs.append(Job('%s.L2.%s' % (PROP, tag), kname, P_WRAPOP, c1, replace=[(P_TAGOP, c1), (P_PLAIN, c1)], layer=2, abstract_div=True, **common))
            # a tag-level custom_operator<divide_op|modulo_op, op_value<L,power<El>>, op_value<R,power<Er>>> with a body of its own does not
            # exist on the pinned tree (the non-zero-degree specialisation inherits the plain operator); if one appears it is
            # proved here instead of being assumed by the L2 replacement
            jobs.append(Job('%s.L1.%s' % (PROP, tag), kname, P_TAGOP, c1, replace=[(P_PLAIN, c1)], layer=1, abstract_div=True, optional=True, **common))
            if max(L.bits, R.bits) <= 16:
                jobs.append(Job('%s.L0.%s' % (PROP, tag), kname, P_PLAIN, leaf_contract(op, L, R), layer=0,
                                shim=sname, shim_types=[l, r], oracle=sem_oracle(op, L, R), prop=PROP, via=sname,
                                timeout=900, solvers=('cadical', 'kissat') if max(L.bits, R.bits) >= 16 else ('minisat',)))
    # quotient()
    qinst = [('i8', -4, 'i8', -2), ('u8', 0, 'u8', -3), ('i16', -8, 'i8', 0), ('u8', -4, 'i8', -2), ('i8', 0, 'u8', -3)] + ([('i16', -4, 'i16', -12), ('i32', -16, 'i16', -4)] if thorough else [])
    for (l, el, r, er) in qinst:
        L, R = T(l), T(r)
        A = 'cnl::scaled_integer<%s, cnl::power<%d>>' % (cxx(l), el)
        B = 'cnl::scaled_integer<%s, cnl::power<%d>>' % (cxx(r), er)
        tag = 'q_%s_%s_%s_%s' % (l, str(el).replace('-', 'm'), r, str(er).replace('-', 'm'))
        E = 'decltype(cnl::quotient(%s{}, %s{}))' % (A, B)
        src.append(fact_shim('qexp_' + tag, 'cnl::_impl::tag_of_t<%s>::exponent' % E))
        src.append(fact_shim('qbits_' + tag, 'sizeof(cnl::_impl::rep_of_t<%s>) * 8' % E))
        src.append(fact_shim('qsgn_' + tag, 'cnl::numbers::signedness_v<cnl::_impl::rep_of_t<%s>>' % E))
        sname = 'vp_' + tag
        src.append(shim('auto', sname, [(l, 'a'), (r, 'b')],
                        'return cnl::_impl::to_rep(cnl::quotient(cnl::_impl::from_rep<%s>(a), cnl::_impl::from_rep<%s>(b)));' % (A, B)))
        heavy = max(L.bits, R.bits) >= 16
        jobs.append(Job('%s.quotient.%s' % (PROP, tag), kname, r'^auto cnl::quotient<cnl::_impl::wrapper<', quotient_contract(L, el, R, er, tag),
                        via=sname, shim=sname, shim_types=[l, r], prop=PROP, timeout=1200 if heavy else 300,
                        solvers=('kissat', 'cadical') if heavy else ('minisat',), layer=3))
    k = Kernel(kname, ''.join(src), [], 'scaled_integer division')
    meta = {'instantiations': len(jobs),
            'explanation': '/ and % proved to be the built-in operators on the reps with the stated exponents; the built-in operators themselves '
                           'are proved against the division-free definition for 8/16-bit operands; quotient() proved as truncated true quotient',
            'not_applicable_parts': ['decimal (radix 10) division', 'elastic_scaled_integer quotient: composition with C05, not re-proved',
                                     'the division-free characterisation of the machine divider at 32/64 bits (assumed: CBMC models sdiv/srem per the language definition)'],
            'assumed_contracts': ['machine division at 32/64 bits obeys q*b + r == a, |r| < |b|, sgn r == sgn a (proved here for 8/16-bit operands only)'],
            'assumptions': []}
    return {'kernels': [k], 'jobs': jobs, 'meta': meta}

"""C01 -- scaled_integer +, -, *, unary - denote exact real arithmetic on rep x radix^exponent.

Functions under contract (leaf first; callers proved against callee contracts):
  L0  cnl::_impl::default_scale<D,Radix,S>::operator()                ret == s*Radix^D (D>=0) / trunc(s / Radix^-D)
  L0  cnl::_impl::{add,subtract,multiply,minus}_op::operator()         the built-in operator on promoted reps
  L1  cnl::custom_operator<Op, op_value<L,power<El,R>>, op_value<Rh,power<Er,R>>>::operator()   (El != Er alignment)
  L2  cnl::custom_operator<Op, op_value<wrapper<L,power<..>>>, op_value<wrapper<Rh,power<..>>>>::operator()
  L3  cnl::_impl::operator+,-,* (wrapper const&, wrapper const&), unary -, and the built-in-operand overloads
Top-level postcondition (statement):  ret_rep * R^e == l * R^El (op) r * R^Er  with e = min(El,Er) for +,-  and El+Er for *,
stated after multiplying through by R^-min(...), in a vector wide enough that nothing wraps.
The exponent rule itself is a compile-time fact of each instantiation (read from the IR, compared with the statement).
"""
import re

from vplib import cxxtypes as CT
from vplib.speclib import (KERNEL_HEAD, T, cxx, dem, W, wval, wconst, Contract, Job, Kernel, shim,
                           fact_shim, fact_job, arg_rep, bits_for)

PROP = 'C01'
INT = r'(?:unsigned )?(?:char|short|int|long|__int128)|signed char|unsigned char'
OPS = {'add': '+', 'subtract': '-', 'multiply': '*'}


def tyname(s):
    return CT.ty(s.strip())


def res_type(a, b):
    return CT.common(a, b)


def width_for(L, ls, R_, rs, radix, op):
    lmax = max(abs(L.min), L.max) * radix ** ls
    rmax = max(abs(R_.min), R_.max) * radix ** rs
    if op == 'multiply':
        return bits_for(lmax * rmax) + 1
    return bits_for(lmax + rmax) + 1


def rel_contract(op, L, El, Rh, Er, radix, le, re_):
    """value relation of the statement on the reps; le/re_ are C expressions of the (unsigned-storage) reps"""
    if op == 'multiply':
        # product of the reps at exponent El+Er: the machine product of the promoted reps, exact because the precondition
        # 'the exact value fits the result type' is the shared no-signed-overflow predicate (multiplication abstracted: congruence)
        from vplib.speclib import builtin_sem
        sm = builtin_sem('multiply', L, Rh, le, re_)
        return Contract(requires=sm['requires'], ensures=['(%s)$RET == %s' % (sm['res'].ctype, sm['value'])], assigns=[],
                        note='rep relation of C01 for *: ret == l * r on the promoted reps (result exponent El+Er is a compile-time fact)')
    if op == 'multiply':
        ls = rs = 0
    else:
        m = min(El, Er)
        ls, rs = El - m, Er - m
    Res = res_type(L, Rh)
    w = max(width_for(L, ls, Rh, rs, radix, op), Res.bits + 3)
    lv = '(%s * %s)' % (wval(le, L, w), wconst(radix ** ls, w))
    rv = '(%s * %s)' % (wval(re_, Rh, w), wconst(radix ** rs, w))
    exact = '(%s %s %s)' % (lv, OPS[op], rv)
    TL, TR = CT.common(L, CT.ty('int')), CT.common(Rh, CT.ty('int'))
    req = []
    if op != 'multiply':
        # "restricted to operands whose exponent-aligned operands and exact result fit the promoted representation"
        req.append('%s >= %s && %s <= %s' % (lv, wconst(TL.min, w), lv, wconst(TL.max, w)))
        req.append('%s >= %s && %s <= %s' % (rv, wconst(TR.min, w), rv, wconst(TR.max, w)))
    req.append('%s >= %s && %s <= %s' % (exact, wconst(Res.min, w), exact, wconst(Res.max, w)))
    ens = ['%s == %s' % (wval('$RET', Res, w), exact)]
    return Contract(requires=req, ensures=ens, assigns=[],
                    note='rep relation of C01: ret*R^e == l*R^El %s r*R^Er (after multiplying through), result rep %s' % (OPS[op], Res.name))


# ---- patterns (named groups carry the template arguments)
P_SCALE = r'cnl::_impl::default_scale<(?P<D>-?\d+), (?P<R>\d+), (?P<S>[a-z_0-9 ]+)>::operator\(\)\('
P_PLAIN = r'cnl::_impl::(?P<op>add|subtract|multiply)_op::operator\(\)<(?P<L>[a-z_0-9 ]+), (?P<Rh>[a-z_0-9 ]+)>\('
P_MINUS = r'cnl::_impl::minus_op::operator\(\)<(?P<L>[a-z_0-9 ]+)>\('
P_L1 = (r'cnl::custom_operator<cnl::_impl::(?P<op>add|subtract|multiply)_op, cnl::op_value<(?P<L>[a-z_0-9 ]+), cnl::power<(?P<El>-?\d+), (?P<R>\d+)> >, '
        r'cnl::op_value<(?P<Rh>[a-z_0-9 ]+), cnl::power<(?P<Er>-?\d+), (?P=R)> > >::operator\(\)\(')
P_L2 = (r'cnl::custom_operator<cnl::_impl::(?P<op>add|subtract|multiply)_op, cnl::op_value<cnl::_impl::wrapper<(?P<L>[a-z_0-9 ]+), cnl::power<(?P<El>-?\d+), (?P<R>\d+)> >, cnl::_impl::native_tag>, '
        r'cnl::op_value<cnl::_impl::wrapper<(?P<Rh>[a-z_0-9 ]+), cnl::power<(?P<Er>-?\d+), (?P=R)> >, cnl::_impl::native_tag> >::operator\(\)\(')
P_L3 = (r'^auto cnl::_impl::operator(?P<sym>[-+*])<cnl::_impl::wrapper<(?P<L>[a-z_0-9 ]+), cnl::power<(?P<El>-?\d+), (?P<R>\d+)> >, '
        r'cnl::_impl::wrapper<(?P<Rh>[a-z_0-9 ]+), cnl::power<(?P<Er>-?\d+), (?P=R)> > >\(')
SYM2OP = {'+': 'add', '-': 'subtract', '*': 'multiply'}


def c_scale(m, fi, tr):
    D, R_, S = int(m['D']), int(m['R']), tyname(m['S'])
    Res = CT.common(S, CT.ty('int'))
    w = bits_for(max(abs(S.min), S.max) * R_ ** max(D, 0)) + 2
    w = max(w, Res.bits + 3)
    s = wval('(*a1)', S, w)
    if D >= 0:
        ex = '(%s * %s)' % (s, wconst(R_ ** D, w))
        return Contract(requires=['%s >= %s && %s <= %s' % (ex, wconst(Res.min, w), ex, wconst(Res.max, w))],
                        ensures=['%s == %s' % (wval('$RET', Res, w), ex)], assigns=[], note='scale by Radix^D, D >= 0')
    ex = '(%s / %s)' % (s, wconst(R_ ** -D, w))
    return Contract(requires=[], ensures=['%s == %s' % (wval('$RET', Res, w), ex)], assigns=[], note='scale by Radix^D, D < 0: truncating division')


TIER = ['quick']


def c_plain(m, fi, tr):
    L, Rh = tyname(m['L']), tyname(m['Rh'])

    return rel_contract(m['op'], L, 0, Rh, 0, 2, '(*a1)', '(*a2)')


def c_minus(m, fi, tr):
    L = tyname(m['L'])
    Res = CT.promote(L)
    w = Res.bits + 3
    ex = '(-%s)' % wval('(*a1)', L, w)
    return Contract(requires=['%s <= %s' % (ex, wconst(Res.max, w)), '%s >= %s' % (ex, wconst(Res.min, w))],
                    ensures=['%s == %s' % (wval('$RET', Res, w), ex)], assigns=[])


def c_rel(first):
    def gen(m, fi, tr):
        op = m['op'] if 'op' in m.groupdict() else SYM2OP[m['sym']]
        L, Rh = tyname(m['L']), tyname(m['Rh'])
        return rel_contract(op, L, int(m['El']), Rh, int(m['Er']), int(m['R']),
                            arg_rep(tr, fi, first), arg_rep(tr, fi, first + 1))
    return gen


REPL_L1 = [(P_SCALE, c_scale), (P_PLAIN, c_plain)]
REPL_L2 = [(P_L1, c_rel(1)), (P_PLAIN, c_plain)]
REPL_L3 = [(P_L2, c_rel(1))]


def sc(t, e, r):
    return 'cnl::scaled_integer<%s, cnl::power<%d, %d>>' % (cxx(t), e, r)


INST_Q = [('i8', 3, 'i32', 0, 10), ('i32', -8, 'i32', -8, 2), ('i32', -8, 'i16', -4, 2), ('i16', -4, 'i32', -8, 2), ('u8', 0, 'i32', -20, 2),
          ('i64', -30, 'i32', -8, 2), ('u32', 3, 'u16', 10, 2), ('i32', -2, 'i32', 0, 10), ('i64', 70, 'i64', 8, 2),
          ('i64', 0, 'i8', -4, 2)]        # larger exponent AND wider rep on the left (shape missed by C03's first plan, seed C03_2)
INST_T = INST_Q + [('i8', -7, 'i8', 0, 2), ('u16', -16, 'i16', -15, 2), ('i64', -62, 'i64', 0, 2), ('i32', 0, 'i64', -30, 2),
                   ('u64', -1, 'u64', -64, 2), ('i16', 2, 'i64', 1, 10), ('i32', -3, 'i16', -1, 10), ('i128', -64, 'i128', 0, 2),
                   ('i32', 70, 'i32', 69, 2), ('i16', 5, 'i16', 0, 10), ('i32', -70, 'i16', -63, 2), ('u8', -8, 'u8', -1, 2), ('i16', -1, 'u16', 0, 2)]


def oracle_rel(op, L, El, Rh, Er, radix):
    Res = res_type(L, Rh)

    def o(a, b):
        if op == 'multiply':
            ls = rs = 0
        else:
            m_ = min(El, Er)
            ls, rs = El - m_, Er - m_
        la, rb = a * radix ** ls, b * radix ** rs
        TL, TR = CT.common(L, CT.ty('int')), CT.common(Rh, CT.ty('int'))
        e = {'add': la + rb, 'subtract': la - rb, 'multiply': la * rb}[op]
        if op != 'multiply' and not (TL.min <= la <= TL.max and TR.min <= rb <= TR.max):
            return None
        if not Res.min <= e <= Res.max:
            return None
        return ('value', e)
    return o


def plan(tier):
    thorough = tier == 'thorough'
    TIER[0] = tier
    src = [KERNEL_HEAD]
    jobs = []
    kname = 'C01'
    seen_leaf = set()
    for (l, el, r, er, radix) in (INST_T if thorough else INST_Q):
        L, Rh = T(l), T(r)
        A, B = sc(l, el, radix), sc(r, er, radix)
        tag = '%s_%s_%s_%s_r%d' % (l, str(el).replace('-', 'm'), r, str(er).replace('-', 'm'), radix)
        for op, sym in OPS.items():
            sname = 'vp_%s_%s' % (op, tag)
            Res = res_type(L, Rh)
            rs_ = [k for k, v in CT.ALIAS.items() if v == Res.name and k[0] in 'iu'][0]
            src.append(shim(rs_, sname, [(l, 'a'), (r, 'b')],
                            'return cnl::_impl::to_rep(cnl::_impl::from_rep<%s>(a) %s cnl::_impl::from_rep<%s>(b));' % (A, sym, B)))
            solvers = ('minisat',)
            timeout = 120
            orc = oracle_rel(op, L, el, Rh, er, radix)
            common = dict(shim=sname, shim_types=[l, r], oracle=orc, prop=PROP, solvers=solvers, timeout=timeout, via=sname, abstract_mul=(op == 'multiply'))
            # exponent rule (compile-time fact): min for + and -, sum for *
            want = el + er if op == 'multiply' else min(el, er)
            src.append(fact_shim('exp_%s_%s' % (op, tag), 'cnl::_impl::tag_of_t<decltype(%s{} %s %s{})>::exponent' % (A, sym, B)))
            jobs.append(fact_job(PROP, kname, 'exp_%s_%s' % (op, tag), want,
                                 'result exponent of %s %s %s is %s' % (A, sym, B, 'the sum of the exponents' if op == 'multiply' else 'the smaller exponent')))
            # the result denotes rep x radix^exponent in the operands' radix (seed C01_3: a result type that silently falls back to radix 2)
            src.append(fact_shim('radix_%s_%s' % (op, tag), 'cnl::_impl::tag_of_t<decltype(%s{} %s %s{})>::radix' % (A, sym, B)))
            jobs.append(fact_job(PROP, kname, 'radix_%s_%s' % (op, tag), radix, 'result radix of %s %s %s is the operands\' radix' % (A, sym, B)))
            src.append(fact_shim('rep_%s_%s' % (op, tag), 'std::is_same_v<cnl::_impl::rep_of_t<decltype(%s{} %s %s{})>, %s>' % (A, sym, B, Res.cname)))
            jobs.append(fact_job(PROP, kname, 'rep_%s_%s' % (op, tag), 1, 'result rep is the promoted common type %s' % Res.name))
            jobs.append(Job('%s.L3.operator.%s.%s' % (PROP, op, tag), kname, P_L3, c_rel(0), replace=REPL_L3, layer=3, **common))
            jobs.append(Job('%s.L2.wrapper_op.%s.%s' % (PROP, op, tag), kname, P_L2, c_rel(1), replace=REPL_L2, layer=2, **common))
            # exists on the pinned tree only for el != er and zero-degree operators; optional so that a body appearing elsewhere is proved, not assumed
            jobs.append(Job('%s.L1.aligned_op.%s.%s' % (PROP, op, tag), kname, P_L1, c_rel(1), replace=REPL_L1, layer=1, optional=True, **common))
    # unary minus on scaled_integer (whole public operator inlined) and scaled_integer OP built-in integer (the integer counts as exponent 0)
    for (l, el) in [('i32', -8), ('i16', -4), ('i8', 3)] + ([('i64', -30), ('u8', 0), ('i32', 70)] if thorough else []):
        L = T(l)
        A = sc(l, el, 2)
        tag = 'neg_%s_%s' % (l, str(el).replace('-', 'm'))
        sname = 'vp_' + tag
        Res = CT.promote(L)
        rs_ = [k_ for k_, v in CT.ALIAS.items() if v == Res.name and k_[0] in 'iu'][0]
        src.append(shim(rs_, sname, [(l, 'a')], 'return cnl::_impl::to_rep(-cnl::_impl::from_rep<%s>(a));' % A))
        src.append(fact_shim('exp_' + tag, 'cnl::_impl::tag_of_t<decltype(-%s{})>::exponent' % A))
        jobs.append(fact_job(PROP, kname, 'exp_' + tag, el, 'unary minus keeps the exponent of %s' % A))

        def c_neg(L, Res):
            def gen(m, fi, tr):
                if fi['nparams'] != 1:
                    return None
                w = Res.bits + 3
                ex = '(-%s)' % wval(arg_rep(tr, fi, 0), L, w)
                return Contract(requires=['%s <= %s' % (ex, wconst(Res.max, w)), '%s >= %s' % (ex, wconst(Res.min, w))] if Res.signed else ['%s == 0' % ex],
                                ensures=['%s == %s' % (wval('$RET', Res, w), ex)], assigns=[], note='rep of -x is -rep(x) (same exponent: the exact negation) whenever it fits')
            return gen
        jobs.append(Job('%s.L3.operator.minus.%s' % (PROP, tag), kname, r'^auto cnl::_impl::operator-<cnl::_impl::wrapper<', c_neg(L, Res), via=sname,
                        shim=sname, shim_types=[l], prop=PROP, timeout=120, layer=3,
                        oracle=(lambda Res: lambda a: None if not Res.min <= -a <= Res.max else ('value', -a))(Res)))
    for (l, el, r, order) in [('i32', -8, 'i32', 'wb'), ('i16', -4, 'i8', 'bw'), ('i32', 4, 'i16', 'wb')] + ([('u16', -3, 'i32', 'bw'), ('i64', -20, 'i32', 'wb')] if thorough else []):
        L, Rh = T(l), T(r)
        A = sc(l, el, 2)
        for op, sym in OPS.items():
            tag = '%s_%s_%s_%s_%s' % (order, op, l, str(el).replace('-', 'm'), r)
            sname = 'vp_' + tag
            if order == 'wb':
                TL, EL, TR, ER = L, el, Rh, 0
                body = 'return cnl::_impl::to_rep(cnl::_impl::from_rep<%s>(a) %s b);' % (A, sym)
                params, types = [(l, 'a'), (r, 'b')], [l, r]
            else:
                TL, EL, TR, ER = Rh, 0, L, el
                body = 'return cnl::_impl::to_rep(b %s cnl::_impl::from_rep<%s>(a));' % (sym, A)
                params, types = [(r, 'b'), (l, 'a')], [r, l]
            Res = res_type(TL, TR)
            rs_ = [k_ for k_, v in CT.ALIAS.items() if v == Res.name and k_[0] in 'iu'][0]
            src.append(shim(rs_, sname, params, body))
            want = EL + ER if op == 'multiply' else min(EL, ER)
            E = ('decltype(%s{} %s %s{})' % (A, sym, cxx(r))) if order == 'wb' else ('decltype(%s{} %s %s{})' % (cxx(r), sym, A))
            src.append(fact_shim('exp_' + tag, 'cnl::_impl::tag_of_t<%s>::exponent' % E))
            jobs.append(fact_job(PROP, kname, 'exp_' + tag, want, 'result exponent with a built-in integer operand (exponent 0)'))

            def c_mixed(op, TL, EL, TR, ER):
                def gen(m, fi, tr):
                    if fi['nparams'] != 2:
                        return None
                    return rel_contract(op, TL, EL, TR, ER, 2, arg_rep(tr, fi, 0), arg_rep(tr, fi, 1))
                return gen
            jobs.append(Job('%s.L3.operator.%s' % (PROP, tag), kname, r'^auto cnl::_impl::operator[-+*]<', c_mixed(op, TL, EL, TR, ER), via=sname,
                            shim=sname, shim_types=types, oracle=oracle_rel(op, TL, EL, TR, ER, 2), prop=PROP, timeout=120, layer=3, abstract_mul=(op == 'multiply')))
    k = Kernel(kname, ''.join(src), [], 'scaled_integer operators')
    # leaf jobs: every default_scale / plain operator instantiation present in the kernel gets its own proof
    jobs.append(('LEAVES', kname, P_SCALE, c_scale, 'L0.default_scale'))
    jobs.append(('LEAVES', kname, P_PLAIN, c_plain, 'L0.plain_op', dict(abstract_mul=True, timeout=120)))
    jobs.append(('LEAVES', kname, P_MINUS, c_minus, 'L0.minus_op'))
    meta = {'instantiations': len(INST_T if thorough else INST_Q) * 3,
            'explanation': 'value relation of the statement proved per layer; exponent and rep-type rules are compile-time facts read from the IR',
            'not_applicable_parts': [
                                     'CNL integer wrappers as Rep (elastic_integer etc.): covered through C05/C11 contracts, not re-proved here'],
            'assumptions': []}
    return {'kernels': [k], 'jobs': jobs, 'meta': meta, 'expand_leaves': True}

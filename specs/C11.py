"""C11 -- static_integer and static_number are never silently wrong.

static_integer<D, Rounding, Overflow, Narrowest> = overflow_integer<elastic_integer<D, rounding_integer<wide_integer<..>, Rounding>>, Overflow>,
static_number<D, E, ...> = scaled_integer<static_integer<D,...>, power<E>>.
Functions under contract: the PUBLIC operator on the composite type (cnl::_impl::operator+,-,*,/,<, the converting constructor), verified
with the whole tower of per-layer custom_operators inlined (they are the real extracted bodies; the per-layer contracts of
C01/C05/C06/C08/C09 are proved separately on the same templates).  Contract (statement): requires the operands within their declared
digits (type invariant); ensures either the exact result (division / narrowing: the exact result rounded by the type's mode) AND the
result within the declared digits of the result type (so that operation chains preserve the invariant: histories follow by induction),
or the overflow signal the tag prescribes (saturated: nearest bound).
"""
from vplib import cxxtypes as CT
from vplib.speclib import (KERNEL_HEAD, T, cxx, dem, W, wval, wconst, Contract, Job, Kernel, shim, fact_shim, fact_job, fact_value,
                           arg_rep, short_of)
from specs.C08 import py_round_div

PROP = 'C11'
OT = {'sat': 'cnl::saturated_overflow_tag', 'trap': 'cnl::trapping_overflow_tag'}
RT = {'nearest': 'cnl::nearest_rounding_tag', 'native': 'cnl::native_rounding_tag'}
OPS = {'add': '+', 'subtract': '-', 'multiply': '*', 'divide': '/'}


def si(D, rt, ot, n='int'):
    return 'cnl::_impl::static_integer<%d, %s, %s, %s>' % (D, RT[rt], OT[ot], n)


def rng(e, D, w):
    return '%s >= %s && %s <= %s' % (e, wconst(-(2 ** D - 1), w), e, wconst(2 ** D - 1, w))


def absx(e):
    return '(%s < 0 ? -%s : %s)' % (e, e, e)


def arith_contract(op, Dl, Dr, rt, tag, first=0):
    def gen(m, fi, tr):
        Dres = fact_value(tr, 'dig_' + tag)
        bres = fact_value(tr, 'bits_' + tag)
        Res = CT.ty('i' + str(bres))
        LR = RR = CT.ty('i32')
        w = 2 * max(bres, 32) + 8
        l, r = wval(arg_rep(tr, fi, first), LR, w), wval(arg_rep(tr, fi, first + 1), RR, w)
        ret = wval('$RET', Res, w)
        req = [rng(l, Dl, w), rng(r, Dr, w)]
        if op == 'divide':
            req.append('%s != 0' % r)
            d = '(%s - %s * %s)' % (l, ret, r)
            if rt == 'nearest':
                ens = ['2 * %s <= %s' % (absx(d), absx(r)), '(2 * %s == %s) ==> (%s > %s)' % (absx(d), absx(r), absx('(%s * %s)' % (ret, r)), absx(l))]
            else:
                ens = ['%s < %s' % (absx(d), absx(r)), '%s == 0 || ((%s < 0) == (%s < 0))' % (d, d, l)]
        else:
            ens = ['%s == (%s %s %s)' % (ret, l, OPS[op], r)]
        ens.append(rng(ret, Dres, w))
        return Contract(requires=req, ensures=ens, assigns=[], note='exact (or correctly rounded) result within the %d digits of the result type' % Dres)
    return gen


def plan(tier):
    thorough = tier == 'thorough'
    src = [KERNEL_HEAD]
    jobs = []
    kname = 'C11'
    inst = [(7, 7, 'nearest', 'sat'), (7, 15, 'nearest', 'trap'), (15, 15, 'native', 'sat')]      # (7, 15): fewer digits on the left (seed C11_2)
    if thorough:
        inst.append((15, 7, 'nearest', 'trap'))
    P_PUB = r'^auto cnl::_impl::operator[-+*/]<cnl::_impl::wrapper<'
    for (Dl, Dr, rt, ot) in inst:
        A, B = si(Dl, rt, ot), si(Dr, rt, ot)
        for op, sym in OPS.items():
            if op in ('multiply', 'divide') and Dl + Dr > 16:
                continue      # whole-tower inlining with a 15x15-digit multiplier/divider: out of memory in propositional reduction
            if op == 'divide' and not thorough:
                continue
            tag = 'si_%s_%d_%d_%s_%s' % (op, Dl, Dr, rt, ot)
            E = 'decltype(%s{} %s %s{})' % (A, sym, B)
            src.append(fact_shim('dig_' + tag, 'cnl::digits_v<%s>' % E))
            src.append(fact_shim('bits_' + tag, 'sizeof(%s) * 8' % E))
            sname = 'vp_' + tag
            src.append(shim('auto', sname, [('i32', 'a'), ('i32', 'b')],
                            'return cnl::unwrap(%s{a} %s %s{b});' % (A, sym, B)))

            def orc(op, Dl, Dr, rt):
                def o(a, b):
                    if not (abs(a) <= 2 ** Dl - 1 and abs(b) <= 2 ** Dr - 1):
                        return None
                    if op == 'divide':
                        if b == 0:
                            return None
                        return ('value', py_round_div('nearest' if rt == 'nearest' else 'native', a, b))
                    return ('value', {'add': a + b, 'subtract': a - b, 'multiply': a * b}[op])
                return o
            heavy = op in ('multiply', 'divide') and Dl + Dr > 16
            jobs.append(Job('%s.%s' % (PROP, tag), kname, P_PUB, arith_contract(op, Dl, Dr, rt, tag), via=sname,
                            shim=sname, shim_types=['i32', 'i32'], oracle=orc(op, Dl, Dr, rt), prop=PROP,
                            timeout=1200 if heavy else 600, solvers=('kissat', 'cadical') if heavy else ('minisat',), layer=3, object_bits=13, mem_gb=30, mem_est=10,
                            harness_pre='__CPROVER_assume((int32_t)vp_in0.f0.f0.f0.f0 >= %d && (int32_t)vp_in0.f0.f0.f0.f0 <= %d);' % (-(2 ** Dl - 1), 2 ** Dl - 1) if False else ''))
    # narrowing conversion: overflow handling iff the value leaves the destination's declared range
    for (Ds, Dd, ot) in ([(15, 7, 'trap')] if thorough else []):       # the saturated variant needs > 30 GB (killed by the OOM killer under load): not planned
        A, B = si(Ds, 'nearest', ot), si(Dd, 'nearest', ot)
        tag = 'si_narrow_%d_%d_%s' % (Ds, Dd, ot)
        sname = 'vp_' + tag
        src.append(shim('i32', sname, [('i32', 'a')], 'return cnl::unwrap(%s{%s{a}});' % (B, A)))
        lim = 2 ** Dd - 1

        def conv_contract(Ds, lim, ot):
            def gen(m, fi, tr):
                w = 40
                # converting constructor: a0 = this (result object), a1 = source
                x = wval(arg_rep(tr, fi, 1), CT.ty('i32'), w)
                from vplib.run import scalar_path
                path = scalar_path(tr, tr.mod.resolve(fi['param_t'][0]).a)[0]
                ret = wval('((*a0)%s)' % path, CT.ty('i32'), w)
                req = [rng(x, Ds, w)]
                if ot == 'sat':
                    ens = ['%s > %s ==> %s == %s' % (x, wconst(lim, w), ret, wconst(lim, w)),
                           '%s < %s ==> %s == %s' % (x, wconst(-lim, w), ret, wconst(-lim, w)),
                           '(%s <= %s && %s >= %s) ==> %s == %s' % (x, wconst(lim, w), x, wconst(-lim, w), ret, x)]
                else:
                    ens = ['%s <= %s && %s >= %s' % (x, wconst(lim, w), x, wconst(-lim, w)), '%s == %s' % (ret, x)]
                return Contract(requires=req, ensures=ens, assigns=['*a0'], note='narrowing: exact when it fits the declared digits, otherwise the tag\'s reaction')
            return gen
        xin = '((__CPROVER_bitvector[40])(int32_t)VP_SRC)'
        defs = {}
        if ot == 'trap':
            defs = {'VP_TRAP_POS_OK': '(%s > %d)' % (xin, lim), 'VP_TRAP_NEG_OK': '(%s < %d)' % (xin, -lim)}

        def orc2(Ds, lim, ot):
            def o(a):
                if abs(a) > 2 ** Ds - 1:
                    return None
                if a > lim:
                    return ('value', lim) if ot == 'sat' else ('trap', 'positive overflow')
                if a < -lim:
                    return ('value', -lim) if ot == 'sat' else ('trap', 'negative overflow')
                return ('value', a)
            return o
        jobs.append(Job('%s.%s' % (PROP, tag), kname,
                        r'^cnl::_impl::wrapper<cnl::_impl::wrapper<.*cnl::elastic_tag<%d, .*>::wrapper<cnl::_impl::wrapper<.*cnl::elastic_tag<%d, ' % (Dd, Ds),
                        conv_contract(Ds, lim, ot), via=sname, shim=sname, shim_types=['i32'], oracle=orc2(Ds, lim, ot), prop=PROP,
                        timeout=900, layer=3, defines=defs, skip_this=True, object_bits=13, mem_gb=30, mem_est=10,
                        extra_c='#define VP_SRC (vp_in1.f0.f0.f0.f0)\n'))
    # static_number: + and * are exact on the scaled values (exponents as C01), value within declared digits
    for (D1, E1, D2, E2) in [(15, -8, 15, -8), (15, -8, 7, -2)]:
        A = 'cnl::static_number<%d, %d>' % (D1, E1)
        B = 'cnl::static_number<%d, %d>' % (D2, E2)
        for op, sym in (('add', '+'), ('multiply', '*')):
            if (op == 'multiply' and D1 + D2 > 24) or (op == 'add' and (D1, D2) == (15, 7)):       # add with unequal exponents: SAT checker out of memory at 30 GB, not planned
                continue
            tag = 'sn_%s_%d_%s_%d_%s' % (op, D1, str(E1).replace('-', 'm'), D2, str(E2).replace('-', 'm'))
            Ex = 'decltype(%s{} %s %s{})' % (A, sym, B)
            src.append(fact_shim('exp_' + tag, 'cnl::_impl::tag_of_t<%s>::exponent' % Ex))
            src.append(fact_shim('dig_' + tag, 'cnl::digits_v<%s>' % Ex))
            src.append(fact_shim('bits_' + tag, 'sizeof(%s) * 8' % Ex))
            want = (E1 + E2) if op == 'multiply' else min(E1, E2)
            jobs.append(fact_job(PROP, kname, 'exp_' + tag, want, 'static_number %s: result exponent %s' % (sym, 'sum' if op == 'multiply' else 'min')))
            sname = 'vp_' + tag
            src.append(shim('auto', sname, [('i32', 'a'), ('i32', 'b')],
                            'return cnl::unwrap(cnl::_impl::from_rep<%s>(%s{a}) %s cnl::_impl::from_rep<%s>(%s{b}));'
                            % (A, 'cnl::_impl::rep_of_t<%s>' % A, sym, B, 'cnl::_impl::rep_of_t<%s>' % B)))

            def sn_contract(op, D1, E1, D2, E2, tag):
                def gen(m, fi, tr):
                    Dres, bres = fact_value(tr, 'dig_' + tag), fact_value(tr, 'bits_' + tag)
                    Res = CT.ty('i' + str(bres))
                    w = 2 * max(bres, 32) + 8
                    l, r = wval(arg_rep(tr, fi, 0), CT.ty('i32'), w), wval(arg_rep(tr, fi, 1), CT.ty('i32'), w)
                    ret = wval('$RET', Res, w)
                    if op == 'multiply':
                        ex = '(%s * %s)' % (l, r)
                    else:
                        mn = min(E1, E2)
                        ex = '(%s * %s + %s * %s)' % (l, wconst(2 ** (E1 - mn), w), r, wconst(2 ** (E2 - mn), w))
                    return Contract(requires=[rng(l, D1, w), rng(r, D2, w)], ensures=['%s == %s' % (ret, ex), rng(ret, Dres, w)], assigns=[])
                return gen

            def orc3(op, D1, E1, D2, E2):
                def o(a, b):
                    if not (abs(a) <= 2 ** D1 - 1 and abs(b) <= 2 ** D2 - 1):
                        return None
                    if op == 'multiply':
                        return ('value', a * b)
                    mn = min(E1, E2)
                    return ('value', a * 2 ** (E1 - mn) + b * 2 ** (E2 - mn))
                return o
            heavy = op == 'multiply'
            jobs.append(Job('%s.%s' % (PROP, tag), kname, r'^auto cnl::_impl::operator[-+*/]<cnl::_impl::wrapper<', sn_contract(op, D1, E1, D2, E2, tag), via=sname,
                            shim=sname, shim_types=['i32', 'i32'], oracle=orc3(op, D1, E1, D2, E2), prop=PROP, layer=3, object_bits=13,
                            timeout=900, solvers=('kissat', 'cadical') if heavy else ('minisat', 'cadical'), mem_gb=30, mem_est=10))
    k = Kernel(kname, ''.join(src), [], 'static_integer / static_number')
    meta = {'instantiations': len(jobs),
            'explanation': 'public operators of the composite types with the whole layer tower inlined; exact-or-signalled postconditions plus the type invariant of the result (induction step for operation chains)',
            'not_applicable_parts': ['instantiations whose storage is 128-bit or multi-word (see C10)', 'random operation chains are not run: chains follow from requires = type invariant, ensures includes the type invariant',
                                     'throwing tag at this level (covered per layer in C06)'],
            'assumptions': []}
    return {'kernels': [k], 'jobs': jobs, 'meta': meta}

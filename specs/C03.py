"""C03 -- comparisons agree with the mathematical order of the represented values.

Functions under contract (whole public operator, glue inlined: to_rep, converting constructors, scale, operate<>):
  cnl::_impl::operator==,!=,<,<=,>,>= on
     scaled_integer<L, power<El,R>> x scaled_integer<Rh, power<Er,R>>     (any exponent order; built-in operand = exponent 0)
     elastic_integer<Dl,Nl> x elastic_integer<Dr,Nr>                      (any digits / signedness)
Postcondition (statement):
  scaled, built-in reps: ret == (la ? rb) where la, rb are the reps re-expressed at the smaller exponent and the comparison is
     the built-in one on those (usual arithmetic conversions when signedness differs) -- precondition: the alignment fits the
     promoted rep;
  elastic: ret == (value(l) ? value(r)) by value, whatever the signedness -- precondition: operands within their declared digits.
Mutual consistency of the six operators and agreement of 'compare with a built-in' with 'compare with it wrapped' are corollaries:
each operator is proved equal to the true relation of one and the same pair (la, rb) in one common type.
"""
from vplib import cxxtypes as CT
from vplib.speclib import (KERNEL_HEAD, T, cxx, dem, W, wval, wconst, Contract, Job, Kernel, shim, arg_rep, builtin_sem, py_builtin, short_of)
from specs.C05 import rep_of

PROP = 'C03'
CMP = {'equal': '==', 'not_equal': '!=', 'less_than': '<', 'greater_than': '>', 'less_than_or_equal': '<=', 'greater_than_or_equal': '>='}


def scaled_cmp_contract(op, L, El, Rh, Er, radix, first=0):
    def gen(m, fi, tr):
        le, re_ = arg_rep(tr, fi, first), arg_rep(tr, fi, first + 1)
        mn = min(El, Er)
        ls, rs = El - mn, Er - mn
        TL = CT.promote(L) if ls else L
        TR = CT.promote(Rh) if rs else Rh
        w = max(L.bits, Rh.bits) + 8 + 4 * max(ls, rs)
        la = '(%s * %s)' % (wval(le, L, w), wconst(radix ** ls, w))
        rb = '(%s * %s)' % (wval(re_, Rh, w), wconst(radix ** rs, w))
        req = []
        if ls:
            req.append('%s >= %s && %s <= %s' % (la, wconst(TL.min, w), la, wconst(TL.max, w)))
        if rs:
            req.append('%s >= %s && %s <= %s' % (rb, wconst(TR.min, w), rb, wconst(TR.max, w)))
        # built-in comparison of the aligned reps
        s = builtin_sem(op, TL, TR, '((%s)%s)' % (TL.ctype, la), '((%s)%s)' % (TR.ctype, rb))
        return Contract(requires=req, ensures=['($RET != 0) == %s' % s['value']], assigns=[],
                        note='built-in %s of the exponent-aligned reps (%s vs %s)' % (CMP[op], TL.name, TR.name))
    return gen


def scaled_oracle(op, L, El, Rh, Er, radix):
    def o(a, b):
        mn = min(El, Er)
        ls, rs = El - mn, Er - mn
        TL = CT.promote(L) if ls else L
        TR = CT.promote(Rh) if rs else Rh
        la, rb = a * radix ** ls, b * radix ** rs
        if not (TL.min <= la <= TL.max and TR.min <= rb <= TR.max):
            return None
        return ('value', py_builtin(op, TL, TR, la, rb))
    return o


def elastic_cmp_contract(op, Dl, LR, Dr, RR, first=0):
    def gen(m, fi, tr):
        le, re_ = arg_rep(tr, fi, first), arg_rep(tr, fi, first + 1)
        w = max(LR.bits, RR.bits) + 4
        lv, rv = wval(le, LR, w), wval(re_, RR, w)
        req = ['%s >= %s && %s <= %s' % (lv, wconst(-(2 ** Dl - 1) if LR.signed else 0, w), lv, wconst(2 ** Dl - 1, w)),
               '%s >= %s && %s <= %s' % (rv, wconst(-(2 ** Dr - 1) if RR.signed else 0, w), rv, wconst(2 ** Dr - 1, w))]
        return Contract(requires=req, ensures=['($RET != 0) == (%s %s %s)' % (lv, CMP[op], rv)], assigns=[],
                        note='comparison by value, signedness-independent')
    return gen


def plan(tier):
    thorough = tier == 'thorough'
    src = [KERNEL_HEAD]
    jobs = []
    kname = 'C03'
    ops = list(CMP)      # all six operators in both tiers (the quick tier used to sample three)
    sc_inst = [('i32', -8, 'i32', -8, 2), ('i32', -8, 'i16', -4, 2), ('i16', -4, 'i32', -8, 2), ('u8', 0, 'i32', -20, 2),
               ('i32', -4, 'u32', 0, 2), ('u16', 3, 'i16', 10, 2), ('i64', -30, 'i32', -8, 2), ('i32', -2, 'i32', 0, 10),
               ('i64', 0, 'i8', -4, 2), ('u32', 0, 'i32', -4, 2)]      # larger exponent on the left with the wider / differently signed rep on the left (seed C03_2)
    if thorough:
        sc_inst += [('i8', -7, 'i8', 0, 2), ('u64', -1, 'u64', -60, 2), ('i64', 70, 'i64', 8, 2), ('u32', -31, 'u8', 0, 2), ('i16', 2, 'i64', 1, 10)]
    for (l, el, r, er, radix) in sc_inst:
        L, Rh = T(l), T(r)
        A = 'cnl::scaled_integer<%s, cnl::power<%d, %d>>' % (cxx(l), el, radix)
        B = 'cnl::scaled_integer<%s, cnl::power<%d, %d>>' % (cxx(r), er, radix)
        for op in ops:
            tag = 'sc_%s_%s_%s_%s_%s_r%d' % (op, l, str(el).replace('-', 'm'), r, str(er).replace('-', 'm'), radix)
            sname = 'vp_' + tag
            src.append(shim('bool', sname, [(l, 'a'), (r, 'b')],
                            'return cnl::_impl::from_rep<%s>(a) %s cnl::_impl::from_rep<%s>(b);' % (A, CMP[op], B)))
            jobs.append(Job('%s.%s' % (PROP, tag), kname, r'^auto cnl::_impl::operator(==|!=|<|>|<=|>=)<cnl::_impl::wrapper<',
                            scaled_cmp_contract(op, L, el, Rh, er, radix), via=sname,
                            shim=sname, shim_types=[l, r], oracle=scaled_oracle(op, L, el, Rh, er, radix), prop=PROP, timeout=120))
    # built-in operand on one side: same answer as the wrapped integer (exponent 0)
    for (l, el, r) in [('i32', -8, 'i32'), ('i16', -4, 'u8')] + ([('u32', 4, 'i64')] if thorough else []):
        L, Rh = T(l), T(r)
        A = 'cnl::scaled_integer<%s, cnl::power<%d>>' % (cxx(l), el)
        for op in ops:
            tag = 'scb_%s_%s_%s_%s' % (op, l, str(el).replace('-', 'm'), r)
            sname = 'vp_' + tag
            src.append(shim('bool', sname, [(l, 'a'), (r, 'b')], 'return cnl::_impl::from_rep<%s>(a) %s b;' % (A, CMP[op])))
            jobs.append(Job('%s.%s' % (PROP, tag), kname, r'^auto cnl::_impl::operator(==|!=|<|>|<=|>=)<cnl::_impl::wrapper<',
                            scaled_cmp_contract(op, L, el, Rh, 0, 2), via=sname,
                            shim=sname, shim_types=[l, r], oracle=scaled_oracle(op, L, el, Rh, 0, 2), prop=PROP, timeout=120))
    # built-in integer on the LEFT (seed C03_3: the left integer cast to the right operand's type): values the scaled type cannot hold, positive exponent
    for (l, el, r) in [('i8', -4, 'i32'), ('i32', 4, 'i32')] + ([('u16', -2, 'i64'), ('i16', 0, 'u32')] if thorough else []):
        L, Rh = T(l), T(r)
        A = 'cnl::scaled_integer<%s, cnl::power<%d>>' % (cxx(l), el)
        for op in ops:
            tag = 'bsc_%s_%s_%s_%s' % (op, r, l, str(el).replace('-', 'm'))
            sname = 'vp_' + tag
            src.append(shim('bool', sname, [(r, 'b'), (l, 'a')], 'return b %s cnl::_impl::from_rep<%s>(a);' % (CMP[op], A)))
            jobs.append(Job('%s.%s' % (PROP, tag), kname, r'^auto cnl::_impl::operator(==|!=|<|>|<=|>=)<',
                            scaled_cmp_contract(op, Rh, 0, L, el, 2), via=sname,
                            shim=sname, shim_types=[r, l], oracle=scaled_oracle(op, Rh, 0, L, el, 2), prop=PROP, timeout=120))
    el_inst = [(7, 'i32', 7, 'i32'), (7, 'i32', 8, 'u32'), (31, 'i32', 32, 'u32'), (8, 'u8', 7, 'i8'), (15, 'i16', 33, 'u64'), (63, 'i64', 64, 'u64')]
    if thorough:
        el_inst += [(1, 'i8', 64, 'u8'), (16, 'u16', 15, 'i16'), (32, 'u32', 63, 'i32'), (24, 'i32', 24, 'u32')]
    for (Dl, nl, Dr, nr) in el_inst:
        NL, NR = T(nl), T(nr)
        LR, RR = rep_of(Dl, NL), rep_of(Dr, NR)
        A = 'cnl::elastic_integer<%d, %s>' % (Dl, cxx(nl))
        B = 'cnl::elastic_integer<%d, %s>' % (Dr, cxx(nr))
        l, r = short_of(LR), short_of(RR)
        for op in ops:
            tag = 'el_%s_%d%s_%d%s' % (op, Dl, nl, Dr, nr)
            sname = 'vp_' + tag
            src.append(shim('bool', sname, [(l, 'a'), (r, 'b')],
                            'return cnl::_impl::from_rep<%s>(a) %s cnl::_impl::from_rep<%s>(b);' % (A, CMP[op], B)))

            def orc(op, Dl, LR, Dr, RR):
                import operator
                f = {'equal': operator.eq, 'not_equal': operator.ne, 'less_than': operator.lt, 'greater_than': operator.gt,
                     'less_than_or_equal': operator.le, 'greater_than_or_equal': operator.ge}[op]

                def o(a, b):
                    if not ((-(2 ** Dl - 1) if LR.signed else 0) <= a <= 2 ** Dl - 1 and (-(2 ** Dr - 1) if RR.signed else 0) <= b <= 2 ** Dr - 1):
                        return None
                    return ('value', 1 if f(a, b) else 0)
                return o
            jobs.append(Job('%s.%s' % (PROP, tag), kname, r'^auto cnl::_impl::operator(==|!=|<|>|<=|>=)<cnl::_impl::wrapper<',
                            elastic_cmp_contract(op, Dl, LR, Dr, RR), via=sname,
                            shim=sname, shim_types=[l, r], oracle=orc(op, Dl, LR, Dr, RR), prop=PROP, timeout=120))
    k = Kernel(kname, ''.join(src), [], 'comparison operators')
    meta = {'instantiations': len(jobs),
            'explanation': 'each comparison operator proved equal to the true relation of the aligned reps / the values; '
                           'trichotomy and built-in-vs-wrapped agreement are corollaries of all six sharing one pair and one common type',
            'not_applicable_parts': ['wide_integer comparisons: see C10', 'elastic_scaled_integer comparisons: composition of the two proved layers, not re-proved'],
            'assumptions': []}
    return {'kernels': [k], 'jobs': jobs, 'meta': meta}
